"""Grammar generator: parameterised families (ring 0/1) and random CFGs (ring 1).

Every function takes a random.Random and returns a grammar dict
(`Dict[str, List[str]]`, Fuzzing-Book style, start symbol <start> with a single
nonterminal expansion).  Invariants of everything returned: all nonterminals
reachable and productive; no cyclic unit / nullable derivations (no infinite
ambiguity).
"""

import random
import string
from typing import Dict, List, Optional, Set, Tuple

from oracles.grammar import canonical, is_nt, nullable_set, productive, reach

Grammar = Dict[str, List[str]]


def _letters(rng: random.Random, lo=2, hi=6, pool=string.ascii_lowercase) -> List[str]:
    n = rng.randint(lo, hi)
    return sorted(rng.sample(pool, n))


def _digits(rng: random.Random) -> List[str]:
    if rng.random() < 0.6:
        return list(string.digits)
    n = rng.randint(2, 9)
    return sorted(rng.sample(string.digits, n))


def fam_assgn(rng: random.Random) -> Grammar:
    sep = rng.choice([" ; ", ";", "\n", " ;\n"])
    asg = rng.choice([" := ", "=", " = ", ":="])
    g = {
        "<start>": ["<stmt>"],
        "<stmt>": [f"<assgn>{sep}<stmt>", "<assgn>"],
        "<assgn>": [f"<var>{asg}<rhs>"],
        "<rhs>": ["<var>", "<digit>"],
        "<var>": _letters(rng, 2, 8),
        "<digit>": _digits(rng),
    }
    if rng.random() < 0.3:
        g["<rhs>"] = ["<var>", "<num>"]
        g["<num>"] = ["<digit><num>", "<digit>"]
        del_digit = False
    if rng.random() < 0.3:
        g["<stmt>"] = list(reversed(g["<stmt>"]))
    return g


def fam_blocks(rng: random.Random) -> Grammar:
    g = {
        "<start>": ["<block>"],
        "<block>": ["{<stmts>}"],
        "<stmts>": ["<stmt><stmts>", "<stmt>"],
        "<stmt>": ["<decl>", "<use>", "<block>"],
        "<decl>": ["int <id>;"],
        "<use>": ["<id>;", "<id>=<id>;"] if rng.random() < 0.5 else ["<id>;"],
        "<id>": _letters(rng, 2, 4),
    }
    return g


def fam_csv(rng: random.Random) -> Grammar:
    sep = rng.choice([",", ";", "\t", "|"])
    nl = rng.choice(["\n", "\r\n", "$"])
    g = {
        "<start>": ["<rows>"],
        "<rows>": [f"<row>{nl}<rows>", f"<row>{nl}"],
        "<row>": [f"<field>{sep}<row>", "<field>"],
        "<field>": ["<chars>"] if rng.random() < 0.7 else ["<chars>", ""],
        "<chars>": ["<char><chars>", "<char>"],
        "<char>": _letters(rng, 2, 5),
    }
    return g


def fam_lines(rng: random.Random) -> Grammar:
    """Text whose final line terminator is optional: `x` and `x` + terminator are both
    words (and differ in the number of <eol> nodes)."""
    nl = rng.choice(["\n", "\n", "\n", "\r\n"])
    g = {
        "<start>": ["<lines>"],
        "<lines>": ["<line><eol><lines>", "<line><eol>", "<line>"],
        "<eol>": [nl],
        "<line>": ["<word>", "<word> <line>"] if rng.random() < 0.6 else ["<word>"],
        "<word>": ["<char><word>", "<char>"],
        "<char>": _letters(rng, 2, 5),
    }
    if rng.random() < 0.3:
        g["<start>"] = ["<line>", "<line><eol>"]
        del g["<lines>"]
    return g


def fam_nullable(rng: random.Random) -> Grammar:
    """Layers of optional parts: nonterminals that are nullable only *through* other
    nonterminals (unit aliases of nullable lists / options), listed before or after the
    ones they inherit emptiness from, adjacent to each other at the start of alternatives."""
    kw1, kw2 = rng.sample(["run ", "var ", "let ", "do ", "go "], 2)
    item = [f"<pre><mods>{kw1}<id>", f"<mods>{kw2}<id>"]
    if rng.random() < 0.4:
        item.append(f"<pre><pre>{kw2}<id>")
    defs = [
        ("<pre>", ["<optpre>"] if rng.random() < 0.7 else ["<optpre>", "<mods>"]),
        ("<mods>", ["<modlist>"]),
        ("<optpre>", ["", "<id>:"]),
        ("<modlist>", ["", "<mod><modlist>"]),
        ("<mod>", rng.sample(["pub ", "mut ", "ref ", "own "], rng.randint(1, 3))),
        ("<id>", _letters(rng, 2, 4)),
    ]
    if rng.random() < 0.3:
        # a second alias level
        defs[1] = ("<mods>", ["<mods2>"])
        defs.insert(2, ("<mods2>", ["<modlist>"]))
    # listing order is part of the shape: sometimes aliases first, sometimes last
    head = defs[:-2]
    if rng.random() < 0.5:
        rng.shuffle(head)
    # the alternatives in random order, directly below <item> or each behind its own
    # nonterminal (which changes the order in which an Earley column predicts them)
    rng.shuffle(item)
    g: Grammar = {"<start>": ["<item>"] if rng.random() < 0.5 else ["<item>", "<item>;<start>"]}
    if rng.random() < 0.6:
        g["<item>"] = [f"<alt{i}>" for i in range(len(item))]
        for i, a in enumerate(item):
            g[f"<alt{i}>"] = [a]
    else:
        g["<item>"] = item
    for k, v in head + defs[-2:]:
        g[k] = v
    return g


def fam_config(rng: random.Random) -> Grammar:
    g = {
        "<start>": ["<entries>"],
        "<entries>": ["<entry><entries>", "<entry>"],
        "<entry>": ["<key>=<num>\n"],
        "<key>": _letters(rng, 2, 5),
        "<num>": ["<digit><num>", "<digit>"],
        "<digit>": _digits(rng),
    }
    if rng.random() < 0.4:
        g["<entry>"] = ["<key>=<num>\n", "<key>=<key>\n"]
    return g


def fam_xml(rng: random.Random) -> Grammar:
    g = {
        "<start>": ["<elem>"],
        "<elem>": ["<<id>><content></<id>>", "<<id>/>"],
        "<content>": ["<elem><content>", "<elem>", "<text>"],
        "<text>": ["<tchar><text>", "<tchar>"],
        "<tchar>": _letters(rng, 2, 3, "xyz "),
        "<id>": _letters(rng, 2, 4),
    }
    if rng.random() < 0.5:
        g["<elem>"] = ["<<id> <attr>><content></<id>>"] + g["<elem>"]
        g["<attr>"] = ['<id>="<text>"']
    return g


def fam_expr(rng: random.Random) -> Grammar:
    g = {
        "<start>": ["<expr>"],
        "<expr>": ["<term>+<expr>", "<term>-<expr>", "<term>"],
        "<term>": ["<num>", "(<expr>)"],
        "<num>": ["<digit><num>", "<digit>"],
        "<digit>": _digits(rng),
    }
    if rng.random() < 0.3:
        g["<term>"].append("<id>")
        g["<id>"] = _letters(rng, 2, 3)
    return g


def fam_lenprefix(rng: random.Random) -> Grammar:
    g = {
        "<start>": ["<msg>"],
        "<msg>": ["<len>:<payload>"],
        "<len>": ["<digit>", "<nzdigit><digit>"],
        "<nzdigit>": ["1", "2"],
        "<digit>": list(string.digits),
        "<payload>": ["<byte><payload>", "<byte>"],
        "<byte>": _letters(rng, 2, 4),
    }
    if rng.random() < 0.4:
        g["<start>"] = ["<msgs>"]
        g["<msgs>"] = ["<msg>\n<msgs>", "<msg>"]
    return g


def fam_signed(rng: random.Random) -> Grammar:
    """Lists of integers with an optional (nullable) sign / padding."""
    sep = rng.choice([",", ";", " "])
    g = {
        "<start>": ["<list>"],
        "<list>": [f"<int>{sep}<list>", "<int>"],
        "<int>": ["<sign><digits>"],
        "<sign>": rng.choice([["", "-"], ["", "-"], ["", "-"], ["", "-", "+"], ["+", "-"]]),
        "<digits>": ["<digit><digits>", "<digit>"],
        "<digit>": _digits(rng),
    }
    if rng.random() < 0.4:
        g["<int>"] = ["<sign><pad><digits>"]
        g["<pad>"] = ["", "0<pad>"]
    return g


def fam_ambig(rng: random.Random) -> Grammar:
    """Ambiguous on purpose: the same string has derivation trees that differ in the
    nonterminals used, so that verdicts depend on the tree, not on the string."""
    a, b = rng.sample(["x", "y", "z"], 2)
    g = {
        "<start>": ["<items>"],
        "<items>": ["<item><items>", "<item>"],
        "<item>": ["<a>", "<b>"],
        "<a>": [a],
        "<b>": [a, b],
    }
    if rng.random() < 0.5:
        g["<item>"] = ["<a>", "<b>", "<c>"]
        g["<c>"] = [b, a + b]
    return g


def fam_wide(rng: random.Random) -> Grammar:
    """One alternative with many symbols (fan-out > 28)."""
    n = rng.randint(29, 40)
    syms = "".join(rng.choice(["<a>", "<b>", "x", "-"]) for _ in range(n))
    g = {
        "<start>": ["<rec>"],
        "<rec>": [syms, "<a><b>"],
        "<a>": _letters(rng, 2, 3),
        "<b>": ["<digit>", "<digit><digit>"],
        "<digit>": _digits(rng),
    }
    return g


ALPHABET = list("abcxyz01") + [" ", "-", ".", ":", "\n", "'", "#", "é"]


def fam_random(rng: random.Random) -> Grammar:
    """Random CFG: 2-7 nonterminals, 1-4 alternatives of 1-4 symbols."""
    for _ in range(200):
        n = rng.randint(2, 7)
        nts = [f"<n{i}>" for i in range(n)]
        eps = rng.random() < 0.25
        g: Grammar = {"<start>": [nts[0]]}
        for i, nt in enumerate(nts):
            alts: List[str] = []
            for _a in range(rng.randint(1, 4)):
                syms = []
                for _s in range(rng.randint(1, 4)):
                    r = rng.random()
                    if r < 0.45:
                        # bias to later nonterminals (limits recursion), allow any
                        if rng.random() < 0.7 and i + 1 < n:
                            syms.append(rng.choice(nts[i + 1 :]))
                        else:
                            syms.append(rng.choice(nts))
                    else:
                        ln = rng.randint(1, 3)
                        syms.append("".join(rng.choice(ALPHABET) for _ in range(ln)))
                alt = "".join(syms)
                if alt not in alts:
                    alts.append(alt)
            if eps and rng.random() < 0.3 and "" not in alts:
                alts.append("")
            g[nt] = alts
        # last nonterminal gets terminal-only alternatives => everything productive
        g[nts[-1]] = sorted(
            {
                "".join(rng.choice(ALPHABET[:8]) for _ in range(rng.randint(1, 2)))
                for _ in range(rng.randint(1, 4))
            }
        )
        g = prune(g)
        if g is not None and well_formed(g):
            return g
    return fam_assgn(rng)


FAMILIES = {
    "assgn": fam_assgn,
    "blocks": fam_blocks,
    "csv": fam_csv,
    "config": fam_config,
    "lines": fam_lines,
    "nullable": fam_nullable,
    "xml": fam_xml,
    "expr": fam_expr,
    "lenprefix": fam_lenprefix,
    "signed": fam_signed,
    "ambig": fam_ambig,
    "wide": fam_wide,
    "random": fam_random,
}


def prune(g: Grammar) -> Optional[Grammar]:
    prod = productive(g)
    if "<start>" not in prod:
        return None
    can = canonical(g)
    g2: Grammar = {}
    for nt, alts in g.items():
        if nt not in prod:
            continue
        keep = [
            a
            for a, toks in zip(alts, can[nt])
            if all((t in prod) if is_nt(t) else True for t in toks)
        ]
        if not keep:
            return None
        g2[nt] = keep
    r = reach(g2)
    live = {"<start>"} | set(r.get("<start>", ()))
    return {nt: alts for nt, alts in g2.items() if nt in live}


def well_formed(g: Grammar) -> bool:
    """All symbols defined, reachable, productive; <start> -> single nonterminal;
    no cyclic unit/nullable derivation (A =>+ A)."""
    can = canonical(g)
    if "<start>" not in g or len(g["<start>"]) != 1:
        return False
    if len(can["<start>"][0]) != 1 or not is_nt(can["<start>"][0][0]):
        return False
    for nt, alts in can.items():
        if not alts:
            return False
        for alt in alts:
            for s in alt:
                if is_nt(s) and s not in g:
                    return False
    if set(productive(g)) != set(g):
        return False
    r = reach(g)
    if ({"<start>"} | set(r["<start>"])) != set(g):
        return False
    # cyclic unit derivations: A -> alpha B beta with alpha, beta nullable
    nullable = nullable_set(g)
    unit: Dict[str, Set[str]] = {nt: set() for nt in g}
    for nt, alts in can.items():
        for alt in alts:
            for i, s in enumerate(alt):
                if not is_nt(s):
                    continue
                others = alt[:i] + alt[i + 1 :]
                if all((o in nullable) if is_nt(o) else o == "" for o in others):
                    unit[nt].add(s)
    # transitive closure
    changed = True
    while changed:
        changed = False
        for nt in unit:
            new = set()
            for m in unit[nt]:
                new |= unit.get(m, set())
            if not new <= unit[nt]:
                unit[nt] |= new
                changed = True
    if any(nt in unit[nt] for nt in unit):
        return False
    return True


# ----------------------------------------------------------------- analysis helpers


def grammar_features(g: Grammar) -> List[str]:
    """Input-class features of a grammar (used to identify known findings by the class
    of grammar that fails, never by seed)."""
    can = canonical(g)
    out = set()
    unit = {nt: {alt[0] for alt in alts if len(alt) == 1 and is_nt(alt[0])} for nt, alts in can.items()}
    for a, us in unit.items():
        # <A> ::= ... | <B> | <C>  with  <B> ::= ... | <C> : grammar_graph (third-party)
        # then judges the valid tree A -> C invalid
        if any(b != c and c in unit.get(b, ()) for b in us for c in us):
            out.add("grammar:unit_alternative_shortcut")
        # the same confusion for any alternative X: <A> ::= ... | <B> | X  with  <B> ::= ... | X
        # (e.g. <n0> ::= <n4> | "1", <n4> ::= "0" | "1": the valid tree n0 -> "1" is rejected)
        alts_a = [tuple(alt) for alt in can[a]]
        for b in us:
            if b != a and any(x != (b,) and x in {tuple(alt) for alt in can.get(b, [])} for x in alts_a):
                out.add("grammar:alternative_shared_with_unit_alternative")
    return sorted(out)


def terminals_below(g: Grammar, nt: str) -> List[str]:
    can = canonical(g)
    r = reach(g)
    out: List[str] = []
    for m in [nt] + sorted(r.get(nt, ())):
        for alt in can[m]:
            for s in alt:
                if not is_nt(s):
                    out.append(s)
    return out


def numeral_nts(g: Grammar) -> Set[str]:
    """Nonterminals whose language is a subset of [0-9]+ (not nullable)."""
    nullable = nullable_set(g)
    out = set()
    for nt in g:
        if nt in nullable or nt == "<start>":
            continue
        terms = terminals_below(g, nt)
        if terms and all(t != "" and all(c in string.digits for c in t) for t in terms):
            out.add(nt)
    return out


def finite_language(g: Grammar, nt: str, cap: int = 40) -> Optional[List[str]]:
    """The language of nt if it is finite and has at most `cap` words, else None."""
    r = reach(g)
    below = {nt} | set(r.get(nt, ()))
    if any(m in r.get(m, ()) for m in below):
        return None
    can = canonical(g)
    memo: Dict[str, Optional[List[str]]] = {}

    def lang(sym: str) -> Optional[List[str]]:
        if not is_nt(sym):
            return [sym]
        if sym in memo:
            return memo[sym]
        words: Set[str] = set()
        for alt in can[sym]:
            cur = [""]
            for s in alt:
                sub = lang(s)
                if sub is None:
                    memo[sym] = None
                    return None
                cur = [a + b for a in cur for b in sub]
                if len(cur) > cap * 4:
                    memo[sym] = None
                    return None
            words |= set(cur)
            if len(words) > cap:
                memo[sym] = None
                return None
        memo[sym] = sorted(words)
        return memo[sym]

    return lang(nt)


def sample_word(
    g: Grammar, nt: str, rng: random.Random, max_depth: int = 8
) -> Optional[str]:
    """Own tiny random derivation (for literals drawn from L(nt))."""
    can = canonical(g)
    cost: Dict[str, int] = {}
    # min derivation depth
    changed = True
    while changed:
        changed = False
        for m, alts in can.items():
            best = None
            for alt in alts:
                try:
                    d = 1 + max([cost[s] for s in alt if is_nt(s)] or [0])
                except KeyError:
                    continue
                best = d if best is None else min(best, d)
            if best is not None and cost.get(m) != best:
                if m not in cost or best < cost[m]:
                    cost[m] = best
                    changed = True

    def derive(sym: str, depth: int) -> str:
        if not is_nt(sym):
            return sym
        alts = can[sym]
        if depth <= 0:
            feasible = [
                a for a in alts if all((not is_nt(s)) or s in cost for s in a)
            ]
            alt = min(
                feasible,
                key=lambda a: max([cost[s] for s in a if is_nt(s)] or [0]),
            )
        else:
            alt = rng.choice(alts)
        return "".join(derive(s, depth - 1) for s in alt)

    try:
        return derive(nt, rng.randint(1, max_depth))
    except (ValueError, KeyError, RecursionError):
        return None


def make_grammar(rng: random.Random, family: Optional[str] = None) -> Tuple[str, Grammar]:
    if family is None:
        family = rng.choice(
            ["assgn", "assgn", "blocks", "csv", "config", "config", "xml", "expr",
             "lenprefix", "signed", "signed", "ambig", "wide", "lines", "nullable", "random", "random", "random"]
        )
    for _ in range(20):
        g = FAMILIES[family](rng)
        if well_formed(g):
            return family, g
    return "assgn", fam_assgn(random.Random(0))
