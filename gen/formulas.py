"""Constraint generator: typed templates over a grammar's reachability relation.

Produces formula ASTs (see oracles.semantics) inside the documented fragment
(DESIGN.md Appendix A).  The AST is the reference; ISLa only sees the printed text.
"""

import random
import string
from typing import Any, Dict, List, Optional, Set, Tuple

from gen.grammars import (
    Grammar,
    finite_language,
    numeral_nts,
    sample_word,
    terminals_below,
)
from oracles.grammar import canonical, is_nt, nullable_set, reach

MEXPR_FORBIDDEN = set('{}[]<>"\\\n\r')


class Ctx:
    def __init__(self, g: Grammar, rng: random.Random):
        self.g = g
        self.rng = rng
        self.can = canonical(g)
        self.reach = reach(g)
        self.numerals = numeral_nts(g)
        self.nullable = nullable_set(g)
        self.counter = 0
        self.nts = [nt for nt in g if nt != "<start>"]

    def fresh(self, base: str) -> str:
        self.counter += 1
        b = "".join(c for c in base if c.isalnum()) or "v"
        if b[0].isdigit():
            b = "v" + b
        return f"{b}_{self.counter}"

    def below(self, nt: str) -> List[str]:
        return sorted(self.reach.get(nt, ()))

    def type_of_in(self, in_var: str, env: Dict[str, str]) -> str:
        return env[in_var]


# ----------------------------------------------------------------- counting mexpr parses


def count_mexpr_parses(g: Grammar, root: str, atoms: List[Tuple], cap: int = 2) -> int:
    """Number of open derivation trees of `root` (root expanded) whose frontier is the
    atom sequence; atoms: ('c', ch) | ('n', nt)."""
    can = canonical(g)
    n = len(atoms)
    nullable = nullable_set(g)
    memo: Dict[Tuple[str, int, int, bool], int] = {}
    active: Set[Tuple[str, int, int, bool]] = set()

    def count_sym(sym: str, i: int, j: int, allow_cut: bool) -> int:
        if not is_nt(sym):
            if j - i != len(sym):
                return 0
            return int(all(atoms[i + k] == ("c", ch) for k, ch in enumerate(sym)))
        key = (sym, i, j, allow_cut)
        if key in memo:
            return memo[key]
        if key in active:
            return 0
        active.add(key)
        total = 0
        if allow_cut and j == i + 1 and atoms[i] == ("n", sym):
            total += 1
        for alt in can.get(sym, []):
            total += count_seq(tuple(alt), 0, i, j)
            if total >= cap:
                break
        active.discard(key)
        total = min(total, cap)
        memo[key] = total
        return total

    def count_seq(alt, k: int, i: int, j: int) -> int:
        if k == len(alt):
            return int(i == j)
        if k == len(alt) - 1:
            return count_sym(alt[k], i, j, True)
        total = 0
        sym = alt[k]
        if not is_nt(sym):
            m = i + len(sym)
            if m <= j and count_sym(sym, i, m, True):
                return count_seq(alt, k + 1, m, j)
            return 0
        for m in range(i, j + 1):
            c1 = count_sym(sym, i, m, True)
            if c1:
                total += c1 * count_seq(alt, k + 1, m, j)
                if total >= cap:
                    return cap
        return total

    return count_sym(root, 0, n, False)


def make_mexpr(ctx: Ctx, nt: str) -> Optional[Tuple[List[Any], Dict[str, str]]]:
    """A match expression for `nt`: one of its alternatives, optionally with one
    nonterminal expanded once more; some nonterminals bound to fresh variables.
    Returns (mexpr, {var: type}) or None."""
    rng = ctx.rng
    alts = [a for a in ctx.can[nt] if any(is_nt(s) for s in a)]
    if not alts:
        return None
    syms = list(rng.choice(alts))
    if rng.random() < 0.3:
        idxs = [i for i, s in enumerate(syms) if is_nt(s)]
        i = rng.choice(idxs)
        sub_alts = [a for a in ctx.can[syms[i]] if a]
        if sub_alts:
            sub = list(rng.choice(sub_alts))
            syms = syms[:i] + sub + syms[i + 1 :]
    if not any(is_nt(s) for s in syms):
        return None
    for s in syms:
        if not is_nt(s) and (set(s) & MEXPR_FORBIDDEN or s == ""):
            return None
    mexpr: List[Any] = []
    bound: Dict[str, str] = {}
    nt_idxs = [i for i, s in enumerate(syms) if is_nt(s)]
    to_bind = set(rng.sample(nt_idxs, rng.randint(1, min(2, len(nt_idxs)))))
    atoms: List[Tuple] = []
    for i, s in enumerate(syms):
        if is_nt(s):
            atoms.append(("n", s))
            if i in to_bind:
                v = ctx.fresh(s[1:-1])
                bound[v] = s
                mexpr.append(["b", v, s])
            else:
                mexpr.append(["n", s])
        else:
            for ch in s:
                atoms.append(("c", ch))
            if mexpr and mexpr[-1][0] == "t":
                mexpr[-1][1] += s
            else:
                mexpr.append(["t", s])
    # leading/trailing whitespace in match expressions is fragile in concrete syntax
    if mexpr[0][0] == "t" and mexpr[0][1][0] == " ":
        return None
    if mexpr[-1][0] == "t" and mexpr[-1][1][-1] == " ":
        return None
    if count_mexpr_parses(ctx.g, nt, atoms) != 1:
        return None
    return mexpr, bound


# ----------------------------------------------------------------- atoms


def literal_for(ctx: Ctx, nt: str) -> Optional[str]:
    for _ in range(5):
        w = sample_word(ctx.g, nt, ctx.rng, max_depth=5)
        if w is not None and len(w) <= 12 and '"' not in w and "\\" not in w:
            if all(ord(c) < 128 for c in w):
                return w
    return None


def smt_atom_1(ctx: Ctx, var: str, typ: str) -> Optional[List[Any]]:
    """An SMT atom over one tree variable."""
    rng = ctx.rng
    v = ["v", var]
    kinds = ["eq_lit", "neq_lit", "len", "len", "prefix", "contains", "in_re"]
    if typ in ctx.numerals:
        kinds += ["num", "num", "num", "arith"]
    kind = rng.choice(kinds)
    if kind in ("eq_lit", "neq_lit", "prefix", "contains"):
        lit = literal_for(ctx, typ)
        if lit is None:
            return None
        if kind == "eq_lit":
            return ["smt", ["=", v, ["s", lit]]]
        if kind == "neq_lit":
            return ["smt", ["not", ["=", v, ["s", lit]]]]
        if kind == "prefix":
            cut = lit[: rng.randint(1, max(1, len(lit)))]
            return ["smt", [rng.choice(["str.prefixof", "str.suffixof"]), ["s", cut], v]]
        cut = lit[rng.randint(0, len(lit) - 1) :][: rng.randint(1, 3)] if lit else ""
        if not cut:
            return None
        return ["smt", ["str.contains", v, ["s", cut]]]
    if kind == "len":
        op = rng.choice(["=", "<", "<=", ">", ">="])
        return ["smt", [op, ["str.len", v], ["i", rng.randint(0, 8)]]]
    if kind == "in_re":
        terms = [t for t in terminals_below(ctx.g, typ) if t and all(ord(c) < 128 for c in t) and '"' not in t and "\\" not in t]
        if not terms:
            return None
        chars = sorted({c for t in terms for c in t})
        pick = rng.sample(chars, min(len(chars), rng.randint(1, 3)))
        union = [["str.to_re", ["s", c]] for c in pick]
        base = union[0] if len(union) == 1 else ["re.union"] + union
        re = [rng.choice(["re.*", "re.+"]), base]
        return ["smt", ["str.in_re", v, re]]
    if kind == "num":
        op = rng.choice(["=", "<", "<=", ">", ">="])
        return ["smt", [op, ["str.to.int", v], ["i", rng.randint(0, 60)]]]
    if kind == "arith":
        n = ["str.to.int", v]
        form = rng.choice(["mod", "div", "mul", "plus", "abs", "neg"])
        if form == "mod":
            m = rng.randint(2, 7)
            return ["smt", ["=", ["mod", n, ["i", m]], ["i", rng.randint(0, m - 1)]]]
        if form == "div":
            return ["smt", ["=", ["div", n, ["i", rng.randint(2, 5)]], ["i", rng.randint(0, 9)]]]
        if form == "mul":
            return ["smt", [rng.choice(["<", ">"]), ["*", n, ["i", rng.randint(2, 4)]], ["i", rng.randint(5, 50)]]]
        if form == "plus":
            return ["smt", ["=", ["+", n, ["i", rng.randint(1, 9)]], ["i", rng.randint(10, 30)]]]
        if form == "abs":
            return ["smt", ["<", ["abs", ["-", n, ["i", rng.randint(5, 20)]]], ["i", rng.randint(1, 5)]]]
        return ["smt", ["<", ["-", n], ["i", -rng.randint(1, 20)]]]
    return None


def smt_atom_2(ctx: Ctx, v1: str, t1: str, v2: str, t2: str) -> Optional[List[Any]]:
    rng = ctx.rng
    a, b = ["v", v1], ["v", v2]
    kinds = ["eq", "neq", "len_eq", "len_lt"]
    if t1 in ctx.numerals and t2 in ctx.numerals:
        kinds += ["num_lt", "num_eq", "num_sum"]
    if t1 in ctx.numerals and t2 not in ctx.numerals:
        kinds += ["len_is", "len_is"]
    kind = rng.choice(kinds)
    if kind == "eq":
        return ["smt", ["=", a, b]]
    if kind == "neq":
        return ["smt", ["not", ["=", a, b]]]
    if kind == "len_eq":
        return ["smt", ["=", ["str.len", a], ["str.len", b]]]
    if kind == "len_lt":
        return ["smt", [rng.choice(["<", "<="]), ["str.len", a], ["str.len", b]]]
    if kind == "num_lt":
        return ["smt", [rng.choice(["<", "<=", ">"]), ["str.to.int", a], ["str.to.int", b]]]
    if kind == "num_eq":
        return ["smt", ["=", ["str.to.int", a], ["+", ["str.to.int", b], ["i", rng.randint(0, 3)]]]]
    if kind == "num_sum":
        return ["smt", ["=", ["+", ["str.to.int", a], ["str.to.int", b]], ["i", rng.randint(3, 30)]]]
    if kind == "len_is":
        return ["smt", ["=", ["str.to.int", a], ["str.len", b]]]
    return None


# `consecutive` is deliberately not generated: ISLa's implementation compares absolute
# node paths with leaf paths relative to the common-prefix subtree, so that it deviates
# from "no leaf in between" whenever the common prefix is not the root -- and the
# shipped reST formalization (LIST_NUMBERING_CONSECUTIVE) depends on exactly that
# deviation (items separated by a newline leaf count as consecutive).  The predicate
# has no single meaning the oracle could hold ISLa to (DESIGN.md, findings).
STRUCT_2 = ["before", "after", "inside", "same_position", "different_position",
            "direct_child"]


def pred_atom_2(ctx: Ctx, v1: str, t1: str, v2: str, t2: str) -> Optional[List[Any]]:
    rng = ctx.rng
    name = rng.choice(STRUCT_2 + ["level", "nth"])
    if name == "level":
        scope = rng.choice(ctx.nts)
        return ["pred", "level", ["s", rng.choice(["EQ", "GE", "LE", "GT", "LT"])],
                ["s", scope], ["v", v1], ["v", v2]]
    if name == "nth":
        return ["pred", "nth", ["s", str(rng.randint(1, 3))], ["v", v1], ["v", v2]]
    return ["pred", name, ["v", v1], ["v", v2]]


# ----------------------------------------------------------------- formulas


def quantifier(ctx: Ctx, kind: str, typ: str, in_var: str, env: Dict[str, str],
               use_mexpr: bool):
    """Returns (node_without_body, new_env, bound_vars) or None."""
    var = ctx.fresh(typ[1:-1])
    new_env = dict(env)
    new_env[var] = typ
    mexpr = None
    if use_mexpr:
        m = make_mexpr(ctx, typ)
        if m is not None:
            mexpr, bound = m
            new_env.update(bound)
    return [kind, typ, var, mexpr, in_var, None], new_env, var


def candidates_in(ctx: Ctx, in_var: str, env: Dict[str, str]) -> List[str]:
    t = env[in_var]
    if t == "<start>":
        return list(ctx.nts)
    return ctx.below(t)


def body_atom(ctx: Ctx, env: Dict[str, str], focus: List[str]) -> Optional[List[Any]]:
    """An atom that mentions the focus variables (most recently bound)."""
    rng = ctx.rng
    tree_vars = [v for v in env if v != "start"]
    if not tree_vars:
        return None
    f = [v for v in focus if v in env and v != "start"] or tree_vars
    v1 = rng.choice(f)
    others = [v for v in tree_vars if v != v1]
    r = rng.random()
    if others and r < 0.45:
        v2 = rng.choice(others)
        if rng.random() < 0.55:
            return smt_atom_2(ctx, v1, env[v1], v2, env[v2])
        if rng.random() < 0.5:
            v1, v2 = v2, v1
        return pred_atom_2(ctx, v1, env[v1], v2, env[v2])
    if r < 0.9:
        return smt_atom_1(ctx, v1, env[v1])
    # count on a tree variable
    below = ctx.below(env[v1])
    if not below:
        return smt_atom_1(ctx, v1, env[v1])
    return ["count", ["v", v1], rng.choice(below), ["i", rng.randint(0, 4)]]


def combine(ctx: Ctx, atoms: List[List[Any]]) -> List[Any]:
    rng = ctx.rng
    atoms = [a for a in atoms if a is not None]
    if not atoms:
        return ["true"]
    f = atoms[0]
    for a in atoms[1:]:
        op = rng.choice(["and", "and", "or", "or", "implies", "xor", "iff"])
        if rng.random() < 0.15:
            a = ["not", a]
        f = [op, f, a]
    return f


def gen_body(ctx: Ctx, env: Dict[str, str], focus: List[str], depth: int) -> List[Any]:
    rng = ctx.rng
    r = rng.random()
    if depth > 0 and r < 0.55:
        # nested quantifier
        in_choices = ["start"] + [v for v in focus if ctx.below(env.get(v, "")) ]
        in_var = rng.choice(in_choices) if rng.random() < 0.6 else "start"
        cands = candidates_in(ctx, in_var, env)
        if cands:
            typ = rng.choice(cands)
            kind = rng.choice(["forall", "exists", "exists"])
            q = quantifier(ctx, kind, typ, in_var, env, rng.random() < 0.35)
            node, new_env, var = q
            new_focus = [var] + [v for v in new_env if v not in env and v != var]
            inner = gen_body(ctx, new_env, new_focus + focus[:1], depth - 1)
            node[5] = inner
            if rng.random() < 0.25:
                extra = body_atom(ctx, env, focus)
                if extra is not None:
                    return [rng.choice(["and", "or"]), extra, node]
            return node
    n_atoms = 1 if rng.random() < 0.6 else 2
    atoms = [body_atom(ctx, env, focus) for _ in range(n_atoms)]
    return combine(ctx, atoms)


def gen_count_formula(ctx: Ctx) -> Optional[List[Any]]:
    """CSV-style: all <X> in start have the same number of <N> (numeric quantifier),
    or a fixed count."""
    rng = ctx.rng
    pairs = [(x, n) for x in ctx.nts for n in ctx.below(x) if n != x]
    if not pairs:
        return None
    x, n = rng.choice(pairs)
    style = rng.choice(["fixed", "fixed_forall", "equal", "exists_int_single", "bounded_per_element", "bounded_per_element", "bounded_global"])
    if style in ("bounded_per_element", "bounded_global"):
        # the CSV example of the specification: an integer bound by `exists int` that
        # occurs in a count atom and in a comparison with a constant
        v = ctx.fresh(x[1:-1])
        i = ctx.fresh("num")
        bound = ["smt", [rng.choice([">=", ">=", "<=", ">"]), ["str.to.int", ["v", i]], ["i", rng.randint(1, 4)]]]
        if style == "bounded_per_element":
            return ["forall", x, v, None, "start", ["exists_int", i, ["and", bound, ["count", ["v", v], n, ["v", i]]]]]
        return ["exists_int", i, ["and", bound, ["forall", x, v, None, "start", ["count", ["v", v], n, ["v", i]]]]]
    if style == "fixed":
        return ["count", ["v", "start"], rng.choice(ctx.nts), ["i", rng.randint(1, 4)]]
    v = ctx.fresh(x[1:-1])
    if style == "fixed_forall":
        return ["forall", x, v, None, "start", ["count", ["v", v], n, ["i", rng.randint(1, 3)]]]
    i = ctx.fresh("num")
    if style == "exists_int_single":
        return ["exists_int", i, ["forall", x, v, None, "start", ["count", ["v", v], n, ["v", i]]]]
    w = ctx.fresh(x[1:-1])
    return ["exists_int", i,
            ["and",
             ["exists", x, v, None, "start", ["count", ["v", v], n, ["v", i]]],
             ["forall", x, w, None, "start", ["count", ["v", w], n, ["v", i]]]]]


def gen_ring0(ctx: Ctx, family: Optional[str]) -> Optional[List[Any]]:
    """Ring 0: parameterised variants of the constraint shapes ISLa's README, spec and
    tests use (these drive the solver deep into its elimination chain)."""
    rng, can = ctx.rng, ctx.can
    try:
        if family == "assgn":
            alt = can["<assgn>"][0]
            if len(alt) != 3 or any(c in MEXPR_FORBIDDEN for c in alt[1]):
                return None
            asg = alt[1]
            if asg != asg.strip() and rng.random() < 0.0:
                return None

            def mx(l, r):
                return [["b", l, "<var>"], ["t", asg], ["b", r, "<rhs>"]]

            body = ["and", ["pred", "before", ["v", "a2"], ["v", "a1"]], ["smt", ["=", ["v", "l2"], ["v", "v"]]]]
            if rng.random() < 0.3:
                body = ["and", body, ["smt", ["not", ["=", ["v", "l2"], ["v", "l1"]]]]]
            return ["forall", "<assgn>", "a1", mx("l1", "r1"), "start",
                    ["forall", "<var>", "v", None, "r1",
                     ["exists", "<assgn>", "a2", mx("l2", "r2"), "start", body]]]
        if family == "lenprefix":
            op = rng.choice(["=", "=", "<=", ">="])
            return ["forall", "<msg>", "m", [["b", "l", "<len>"], ["t", ":"], ["b", "p", "<payload>"]], "start",
                    ["smt", [op, ["str.to.int", ["v", "l"]], ["str.len", ["v", "p"]]]]]
        if family == "blocks":
            body = ["and", ["pred", "before", ["v", "d"], ["v", "u"]], ["smt", ["=", ["v", "i"], ["v", "j"]]]]
            if rng.random() < 0.5:
                body = ["and", ["pred", "level", ["s", "GE"], ["s", "<block>"], ["v", "d"], ["v", "u"]], body]
            return ["forall", "<use>", "u", [["b", "i", "<id>"], ["t", ";"]], "start",
                    ["exists", "<decl>", "d", [["t", "int "], ["b", "j", "<id>"], ["t", ";"]], "start", body]]
        if family == "config":
            k = rng.randint(1, 40)
            return ["forall", "<entry>", "e", None, "start",
                    ["exists", "<num>", "n", None, "e", ["smt", [rng.choice([">", ">=", "<"]), ["str.to.int", ["v", "n"]], ["i", k]]]]]
        if family == "lines":
            r = rng.random()
            if r < 0.4:
                return ["count", ["v", "start"], "<eol>", ["i", rng.randint(0, 3)]]
            if r < 0.7:
                return ["exists", "<eol>", "e", None, "start", ["smt", ["=", ["v", "e"], ["s", ctx.g["<eol>"][0]]]]]
            return ["forall", "<line>", "l", None, "start", ["exists", "<eol>", "e", None, "start", ["pred", "before", ["v", "l"], ["v", "e"]]]]
        if family == "signed":
            return ["forall", "<int>", "x", [["b", "s", "<sign>"], ["b", "d", "<digits>"]], "start",
                    ["or", ["smt", ["=", ["v", "s"], ["s", "-"]]], ["smt", ["<", ["str.to.int", ["v", "d"]], ["i", rng.randint(3, 50)]]]]] \
                if "<pad>" not in ctx.g else None
    except (KeyError, IndexError):
        return None
    return None


def gen_forall_and_exists(ctx: Ctx) -> Optional[List[Any]]:
    """`(forall <U> u: phi(u)) and (exists <W> w: psi(w))` with <U> not reachable from
    <W>: when the existential is satisfied by inserting a new <W>, the rules on the
    connecting path bring new open siblings that can derive <U>; the universal formula
    has to hold for them as well.  Pairs that occur as siblings in one rule preferred."""
    rng = ctx.rng
    nts = [n for n in ctx.nts if n != "<start>"]
    pairs = [(u, w) for u in nts for w in nts if u != w and u not in ctx.below(w)]
    if not pairs:
        return None

    def siblings(u, w):
        for alts in ctx.can.values():
            for alt in alts:
                if w in alt and any(t != w and t.startswith("<") and (t == u or u in ctx.below(t)) for t in alt):
                    return True
        return False

    unrelated = [(u, w) for u, w in pairs if w not in ctx.below(u)]
    sib = [(u, w) for u, w in unrelated if siblings(u, w)]
    u, w = rng.choice(sib or unrelated or pairs)
    env = {"start": "<start>"}
    n1, env1, v1 = quantifier(ctx, "forall", u, "start", env, False)
    n1[5] = gen_body(ctx, env1, [v1], depth=0)
    n2, env2, v2 = quantifier(ctx, "exists", w, "start", env, False)
    n2[5] = gen_body(ctx, env2, [v2], depth=0) if rng.random() < 0.7 else ["true"]
    return ["and", n1, n2] if rng.random() < 0.5 else ["and", n2, n1]


def gen_formula(g: Grammar, rng: random.Random, family: Optional[str] = None) -> List[Any]:
    ctx = Ctx(g, rng)
    if family is not None and rng.random() < 0.3:
        f = gen_ring0(ctx, family)
        if f is not None:
            return f
    if rng.random() < 0.09:
        f = gen_forall_and_exists(ctx)
        if f is not None:
            return bind_unused(ctx, f, {"start": "<start>"})
    r = rng.random()
    if r < 0.04:
        return ["true"]
    if r < 0.14:
        f = gen_count_formula(ctx)
        if f is not None:
            return f
    env = {"start": "<start>"}
    # top-level: one or two quantified conjuncts
    parts = []
    for _ in range(1 if rng.random() < 0.75 else 2):
        typ = rng.choice(ctx.nts)
        kind = rng.choice(["forall", "forall", "exists"])
        node, new_env, var = quantifier(ctx, kind, typ, "start", env, rng.random() < 0.4)
        focus = [var] + [v for v in new_env if v not in env and v != var]
        node[5] = gen_body(ctx, new_env, focus, depth=rng.choice([0, 0, 1, 1, 2]))
        parts.append(node)
    f = parts[0] if len(parts) == 1 else [rng.choice(["and", "and", "or"])] + parts
    return bind_unused(ctx, f, {"start": "<start>"})


def formula_size(f) -> int:
    if not isinstance(f, list):
        return 0
    return 1 + sum(formula_size(x) for x in f[1:] if isinstance(x, list))


def mentions(f, var: str) -> bool:
    """Does variable `var` occur (as a term, predicate argument or in-variable)?"""
    if isinstance(f, list):
        if len(f) == 2 and f[0] == "v" and f[1] == var:
            return True
        if f and f[0] in ("forall", "exists") and len(f) == 6:
            return f[4] == var or mentions(f[5], var)
        return any(mentions(x, var) for x in f)
    return False


def bind_unused(ctx: "Ctx", f, env: Dict[str, str], keep_prob: float = 0.12):
    """Most quantifiers (without match expression) whose variable does not occur in
    their body get an atom about that variable conjoined / disjoined, so that the bulk
    of the workload stays outside the known 'unused quantified variable' finding."""
    op = f[0]
    if op in ("forall", "exists"):
        _, typ, var, mexpr, in_var, body = f
        new_env = dict(env)
        new_env[var] = typ
        if mexpr is not None:
            for el in mexpr:
                if el[0] == "b":
                    new_env[el[1]] = el[2]
        body = bind_unused(ctx, body, new_env, keep_prob)
        if mexpr is None and not mentions(body, var) and ctx.rng.random() >= keep_prob:
            atom = None
            for _ in range(4):
                atom = smt_atom_1(ctx, var, typ)
                if atom is not None:
                    break
            if atom is None:
                atom = ["smt", [">=", ["str.len", ["v", var]], ["i", 0]]]
            body = [ctx.rng.choice(["and", "or"]) if op == "exists" else ctx.rng.choice(["and", "or", "implies"]), atom, body]
        return [op, typ, var, mexpr, in_var, body]
    if op in ("forall_int", "exists_int"):
        return [op, f[1], bind_unused(ctx, f[2], env, keep_prob)]
    if op in ("and", "or", "not", "implies", "iff", "xor"):
        return [op] + [bind_unused(ctx, g, env, keep_prob) for g in f[1:]]
    return f


_GRAMMAR_FOR_FEATURES: List[Any] = [None]


def features_with_grammar(f, grammar) -> List[str]:
    _GRAMMAR_FOR_FEATURES[0] = grammar
    try:
        out = set(features(f))
        # an SMT atom that relates two tree variables one of which may lie inside the
        # other (its type is reachable from the other's type, or the types are equal)
        r = reach(grammar)
        types: Dict[str, str] = {"start": "<start>"}
        mexpr_bound: Set[str] = set()

        def collect_types(g):
            if isinstance(g, list) and g:
                if g[0] in ("forall", "exists") and len(g) == 6:
                    types[g[2]] = g[1]
                    if g[3] is not None:
                        mexpr_bound.add(g[2])
                    for el in g[3] or []:
                        if el[0] == "b":
                            types[el[1]] = el[2]
                for x in g:
                    collect_types(x)

        collect_types(f)

        def tvars(t, acc):
            if isinstance(t, list):
                if len(t) == 2 and t[0] == "v" and t[1] in types:
                    acc.add(t[1])
                for x in t:
                    tvars(x, acc)

        def walk(g):
            if isinstance(g, list) and g:
                if g[0] == "count" and g[1][1] in types and g[1][1] != "start":
                    t = types[g[1][1]]
                    if t in r.get(t, ()):
                        out.add("count_on_quantified_variable_of_recursive_nonterminal")
                if g[0] == "smt":
                    vs = set()
                    tvars(g[1], vs)
                    vs = sorted(vs)
                    for a in vs:
                        for b in vs:
                            if a != b and (types[b] == types[a] or types[b] in r.get(types[a], ())):
                                out.add("smt_atom_over_possibly_nested_variables")
                for x in g:
                    walk(x)

        walk(f)

        # ... or two *different* SMT atoms of the formula, one about each variable: the
        # atoms end up in one Z3 query in which the variables are independent, and
        # substituting the outer variable's solution overwrites the inner one's subtree
        atom_vars: List[Set[str]] = []

        def atoms(g):
            if isinstance(g, list) and g:
                if g[0] == "smt":
                    vs: Set[str] = set()
                    tvars(g[1], vs)
                    atom_vars.append(vs)
                    return
                for x in g:
                    atoms(x)

        atoms(f)

        # ... or a universal quantifier over a type that can occur inside another variable
        # mentioned by an SMT atom (whatever the body of the universal formula is): the
        # string Z3 picks for that variable is parsed into a new subtree against which the
        # universal quantifier is not instantiated
        foralls: List[Tuple[str, bool]] = []

        def collect_foralls(g):
            if isinstance(g, list) and g:
                if g[0] == "forall" and len(g) == 6:
                    foralls.append((g[2], g[3] is not None))
                for x in g:
                    collect_foralls(x)

        collect_foralls(f)
        smt_vars = set().union(*atom_vars) if atom_vars else set()
        for a, has_mexpr in foralls:
            for j in smt_vars:
                if j != a and j != "start" and (types[a] in r.get(types[j], ()) or (types[a] == types[j] and has_mexpr)):
                    out.add("forall_over_type_inside_smt_variable")
        for i, va in enumerate(atom_vars):
            for j, vb in enumerate(atom_vars):
                if i != j and any(
                    a != b and (
                        types[b] in r.get(types[a], ())
                        # same type: matters when a quantifier with a match expression is
                        # instantiated late (the other variable's solution, parsed into a
                        # new subtree, can match the expression)
                        or (types[a] == types[b] and (a in mexpr_bound or b in mexpr_bound))
                    )
                    for a in va for b in vb
                ):
                    out.add("smt_atoms_over_possibly_nested_variables")
        return sorted(out)
    finally:
        _GRAMMAR_FOR_FEATURES[0] = None


def features(f, under_forall: bool = False, under_exists: bool = False, out=None) -> List[str]:
    """Input-class features of a formula (used to identify known findings by the class
    of constraint that fails, never by seed)."""
    if out is None:
        out = set()
    op = f[0]
    if op in ("forall", "exists"):
        if f[3] is not None:
            out.add(f"{op}_with_match_expression")
            if _GRAMMAR_FOR_FEATURES[0] is not None:
                syms = []
                for el in f[3]:
                    syms.append(el[1] if el[0] in ("t", "n") else el[2])
                flat = "".join(syms)
                alts = ["".join(a) for a in canonical(_GRAMMAR_FOR_FEATURES[0]).get(f[1], [])]
                if flat not in alts:
                    # the expression expands below the first level of the nonterminal
                    out.add(f"{op}_with_nested_match_expression")
        elif not mentions(f[5], f[2]):
            # ISLa drops such a quantifier when substituting (unsound for an empty
            # range: see known findings)
            out.add("unused_quantified_variable")
        features(f[5], under_forall or op == "forall", under_exists or op == "exists", out)
    elif op in ("forall_int", "exists_int"):
        out.add(op)
        features(f[2], under_forall, under_exists, out)
    elif op in ("and", "or", "not", "implies", "iff", "xor"):
        if op in ("not", "implies", "iff", "xor"):
            out.add("non_monotone_connective")
        for g in f[1:]:
            features(g, under_forall, under_exists, out)
    elif op == "count":
        kind = "literal" if f[3][0] == "i" else "intvar"
        out.add(f"count_{kind}")
        if under_forall:
            out.add(f"count_{kind}_under_forall")
        if f[1][1] == "start":
            out.add("count_on_start")
        else:
            out.add(f"count_{kind}_on_quantified_variable")
    elif op == "pred":
        out.add("pred_" + f[1])
        if f[1] == "nth" and under_exists:
            out.add("nth_under_exists")
    elif op == "smt":
        def walk(t):
            if isinstance(t, list) and t:
                if isinstance(t[0], str) and t[0] not in ("v", "s", "i"):
                    out.add("smt_" + t[0])
                for x in t[1:]:
                    walk(x)
        walk(f[1])
    return sorted(out)


def uses(f, op: str) -> bool:
    if not isinstance(f, list):
        return False
    if f and f[0] == op:
        return True
    return any(uses(x, op) for x in f if isinstance(x, list))
