#!/venv/bin/python
"""Entry point:  ./check <Cxx> [--tier quick|thorough] [--replay file] [--runs N] [--budget S]

exit 0: property held on everything explored (KNOWN-FINDING lines possible)
exit 1: VIOLATION property=<id> replay=<path>
exit 2: harness problem (never a verdict)
"""

import json
import os
import sys

VERIF = os.path.dirname(os.path.abspath(__file__))
if VERIF not in sys.path:
    sys.path.insert(0, VERIF)


def main(argv):
    if argv and argv[0] == "--part-process":
        from sim.driver import part_main

        return part_main(argv[1:])

    import argparse

    ap = argparse.ArgumentParser()
    ap.add_argument("prop")
    ap.add_argument("--tier", default=os.environ.get("VERIF_TIER", "quick"))
    ap.add_argument("--replay", default=None)
    ap.add_argument("--runs", type=int, default=None)
    ap.add_argument("--budget", type=float, default=None)
    ap.add_argument("--nproc", type=int, default=int(os.environ.get("VERIF_NPROC", "16")))
    args = ap.parse_args(argv)

    from checks import registry

    if args.replay:
        return registry.replay(args.prop, args.replay)
    spec = registry.CHECKS.get(args.prop)
    if spec is None:
        print(f"unknown or unclaimed property {args.prop}")
        return 2
    return spec(args.tier, args.runs, args.budget, args.nproc)


if __name__ == "__main__":
    sys.exit(main(sys.argv[1:]))
