"""Immutable reference model of derivation trees for treesim (C16/C17)."""

from typing import Dict, List, Optional, Tuple

Path = Tuple[int, ...]


class M:
    __slots__ = ("label", "id", "children")

    def __init__(self, label: str, id_: int, children: Optional[Tuple["M", ...]]):
        self.label = label
        self.id = id_
        self.children = None if children is None else tuple(children)


def from_isla(t) -> M:
    ch = t.children
    return M(t.value, t.id, None if ch is None else tuple(from_isla(c) for c in ch))


def is_nt(label: str) -> bool:
    return len(label) >= 2 and label[0] == "<" and label[-1] == ">"


def m_str(m: M, show_open: bool) -> str:
    if m.children is None:
        return m.label if show_open else ""
    if not m.children:
        return "" if is_nt(m.label) else m.label
    return "".join(m_str(c, show_open) for c in m.children)


def m_open(m: M) -> bool:
    if m.children is None:
        return True
    return any(m_open(c) for c in m.children)


def m_paths(m: M, prefix: Path = ()) -> List[Tuple[Path, M]]:
    out = [(prefix, m)]
    for i, c in enumerate(m.children or ()):
        out.extend(m_paths(c, prefix + (i,)))
    return out


def m_get(m: M, path: Path) -> Optional[M]:
    for i in path:
        if not m.children or i >= len(m.children):
            return None
        m = m.children[i]
    return m


def m_replace(m: M, path: Path, repl: M) -> M:
    if not path:
        return repl
    ch = list(m.children)
    ch[path[0]] = m_replace(ch[path[0]], path[1:], repl)
    return M(m.label, m.id, tuple(ch))


def m_struct(m: M):
    """Structure without ids (hashable)."""
    return (m.label, None if m.children is None else tuple(m_struct(c) for c in m.children))


def m_full(m: M):
    """Structure with ids (hashable)."""
    return (m.label, m.id, None if m.children is None else tuple(m_full(c) for c in m.children))


def m_ids(m: M) -> List[int]:
    return [n.id for _, n in m_paths(m)]


def m_depth(m: M) -> int:
    if not m.children:
        return 1
    return 1 + max(m_depth(c) for c in m.children)


def m_parse_tree(m: M):
    return (m.label, None if m.children is None else [m_parse_tree(c) for c in m.children])
