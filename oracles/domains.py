"""Oracle-D: independent validity checkers for the four formalizations shipped with ISLa
(isla_formalizations.{csv, xml_lang, rest, simple_tar}).

Every checker takes the generated input as a ``str`` and returns ``None`` if the input is
valid under the formalized rule(s), else a short human readable reason.  The checkers

  * never import ``isla`` / ``isla_formalizations`` and never shell out (only the standard
    library and, for reST, ``docutils``),
  * never raise for any input string (internal exceptions are turned into a reason),
  * are deterministic and work on the *string only* (no derivation tree).

General policy.  Each "own" check enforces exactly what the shipped ISLa constraint
promises for the textual construct it talks about (no more), read the way the target
format reads the text (there is no derivation tree here).  Reasons that are about the
string not even having the shape the shipped grammar produces (as opposed to breaking a
formalized rule) are prefixed with ``"malformed"``.

The rules, and where each one comes from, are stated in the docstring of each validator.
"""

import io
import re
import xml.parsers.expat
from typing import Callable, Dict, Iterable, List, Optional, Set, Tuple

__all__ = [
    "validate_csv",
    "validate_xml",
    "validate_rest",
    "validate_simple_tar",
    "VALIDATORS",
]


def _short(text: str, limit: int = 40) -> str:
    r = repr(text)
    return r if len(r) <= limit else r[: limit - 3] + "..."


# =========================================================================== CSV
#
# Shipped grammar (csv.py, CSV_GRAMMAR):
#
#   <csv-file>    ::= <csv-record> <csv-record>*          (header + records)
#   <csv-record>  ::= <raw-field> (";" <raw-field>)* "\n"
#   <raw-field>   ::= <simple-field> | <quoted-field>
#   <simple-field>::= " "* <simple-character>+ " "*       no '\n' ';' '"' ' ' '\t' '\r'
#   <quoted-field>::= '"' <escaped-character>* '"'        any printable except '"'
#                                                        (so ';' and '\n' are allowed inside,
#                                                        and there is no "" escape)
#
# Shipped constraint (CSV_COLNO_PROPERTY):
#
#   exists int num: forall <csv-record> elem in start:
#       str.to.int(num) >= 1 and count(elem, "<raw-field>", num)
#
# i.e. there is one number num >= 1 such that every record (header included) has exactly
# num fields.  By the grammar every record has >= 1 field and there is >= 1 record.


def _csv_records(s: str) -> Tuple[Optional[List[List[str]]], Optional[str]]:
    """Split `s` into records of fields exactly as CSV_GRAMMAR means them.

    A field that starts with '"' extends to the next '"' (whatever is in between,
    including ';' and newlines) and must be followed by ';' or a newline.  Any other field
    extends to the next ';' or newline (leading/trailing blanks belong to the field).
    Returns (records, None) or (None, reason).
    """
    records: List[List[str]] = []
    fields: List[str] = []
    i, n = 0, len(s)
    any_quoted = False  # does the current record contain a quoted field?
    while i < n:
        if s[i] == '"':
            any_quoted = True
            j = s.find('"', i + 1)
            if j < 0:
                return None, f"malformed CSV: unterminated quoted field in record {len(records) + 1}"
            fields.append(s[i + 1 : j])
            i = j + 1
            if i < n and s[i] not in ";\n":
                return None, (
                    f"malformed CSV: {_short(s[i])} directly after closing quote "
                    f"in record {len(records) + 1}"
                )
        else:
            j = i
            while j < n and s[j] not in ';\n"':
                j += 1
            if j < n and s[j] == '"':
                return None, f"malformed CSV: '\"' inside unquoted field in record {len(records) + 1}"
            fields.append(s[i:j])
            i = j
        # i is at ';', '\n' or end of input
        if i < n and s[i] == ";":
            i += 1
            if i >= n:
                # "a;" at end of input: one more (empty) field, record ends at EOF
                fields.append("")
                records.append(fields)
                fields = []
                any_quoted = False
            continue
        # newline or EOF: the record ends (a missing final newline is tolerated; it has no
        # bearing on the column-count rule)
        if i < n:
            i += 1
        if len(fields) == 1 and fields[0] == "" and not any_quoted:
            # an empty line; note that the one-field record '""' is NOT empty
            return None, f"malformed CSV: empty record {len(records) + 1}"
        records.append(fields)
        fields = []
        any_quoted = False
    if fields:
        records.append(fields)
    return records, None


def validate_csv(s: str) -> Optional[str]:
    """Rule (CSV_COLNO_PROPERTY): at least one record, and all records (the header is a
    record) have the same number >= 1 of ';'-separated fields, where quoted fields may
    contain ';' and newlines."""
    try:
        if not isinstance(s, str):
            return "input is not a string"
        if s == "":
            return "no record (empty input)"
        records, err = _csv_records(s)
        if err is not None:
            return err
        assert records is not None
        if not records:
            return "no record"
        expected = len(records[0])
        if expected < 1:
            return "header has no field"
        for idx, rec in enumerate(records[1:], start=2):
            if len(rec) != expected:
                return (
                    f"record {idx} has {len(rec)} field(s), "
                    f"but the header (record 1) has {expected}"
                )
        return None
    except Exception as exc:  # pragma: no cover - defensive
        return f"validator error: {type(exc).__name__}: {exc}"


# =========================================================================== XML
#
# Shipped grammar (xml_lang.py, XML_GRAMMAR_WITH_NAMESPACE_PREFIXES):
#
#   <xml-tree>  ::= <xml-open-tag> <inner-xml-tree> <xml-close-tag> | <xml-openclose-tag>
#   open tag    ::= "<" <id> [" " <xml-attribute>] ">"      openclose tag: ... "/>"
#   close tag   ::= "</" <id> ">"
#   attributes  ::= <id> '="' <text> '"'  separated by single blanks
#   <id>        ::= name | name ":" name       name over [_A-Za-z][_A-Za-z0-9.-]*
#   <text>      ::= [A-Za-z0-9. \t/?-,=:+]+ plus &quot; and &#x27;
#
# Shipped constraints:
#
#  XML_WELLFORMEDNESS_CONSTRAINT
#     forall <xml-tree> "<{<id> opid}[ <xml-attribute>]><inner-xml-tree></{<id> clid}>":
#         opid = clid
#     -> the (qualified) name in a closing tag equals the one in its opening tag.  Proper
#        nesting itself is a grammar matter; together: XML well-formedness of the element
#        structure.
#
#  XML_NAMESPACE_CONSTRAINT = XML_TAG_NAMESPACE_CONSTRAINT & XML_ATTRIBUTE_NAMESPACE_CONSTRAINT
#     tags:  every element "<p:n ...>" / "<p:n .../>" must be inside(*) an element written
#            with a separate open tag "<id attrs> ... </id>" (NOT an openclose tag "<id attrs/>")
#            whose attribute list contains  xmlns:p="..."  .
#     attrs: every attribute "p:d=..." with  (p != "xmlns"  or  d == "xmlns")  must be
#            inside(*) such an element whose attribute list contains xmlns:p'="..." with
#            p' != "xmlns" and p' == p.   Consequences: "xmlns:d" with d != "xmlns" is a
#            declaration and needs nothing; "xmlns:xmlns" can never be satisfied (forbidden);
#            together with that, an element prefix "xmlns" can never be declared (forbidden).
#     (*) ISLa's inside() is reflexive: the element's own open tag counts, ancestors count.
#     Attributes without prefix, and the unprefixed attribute "xmlns", need nothing.
#     The grammar's <id> alphabet is [_A-Za-z][_A-Za-z0-9.-]*, so the prefix "xml" CAN be
#     produced; the constraint does not treat it specially (it must be declared like any
#     other prefix), and neither does this checker in its default mode.
#
#     The only point where this is *stricter* than "Namespaces in XML" is that
#     declarations written in an openclose tag (<p:a xmlns:p="u"/>) do not count, not even
#     for that tag itself.  `isla_scoping=False` switches to the plain XML reading
#     (declarations on the element itself always count, the prefix "xml" is pre-bound).
#     Things "Namespaces in XML" demands but the constraint does not promise are NOT
#     checked (two differently prefixed attributes expanding to the same name; binding the
#     prefix "xml" to a foreign URI) - a namespace-aware expat would reject those.
#
#  XML_NO_ATTR_REDEF_CONSTRAINT
#     within one attribute list no two attributes have the same <id> (string equality of
#     the qualified name as written).

_XML_NAME = r"[^\s<>/=\"'&]+"
_XML_ATTR = r"\s+" + _XML_NAME + r"\s*=\s*(?:\"[^\"<]*\"|'[^'<]*')"
_XML_TAG_RE = re.compile(
    r"<(?P<close>/?)(?P<name>" + _XML_NAME + r")(?P<attrs>(?:" + _XML_ATTR + r")*)\s*(?P<self>/?)>"
)
_XML_ATTR_RE = re.compile(r"\s+(" + _XML_NAME + r")\s*=\s*(?:\"([^\"<]*)\"|'([^'<]*)')")

_EXPAT_DUPLICATE_ATTRIBUTE = 8  # XML_ERROR_DUPLICATE_ATTRIBUTE


def _xml_tokens(s: str):
    """Own tag-level tokenizer.  Yields ("open"|"selfclose"|"close", name, attrs, pos)
    where attrs is a list of (qualified name, value); raises ValueError(reason)."""
    pos, n = 0, len(s)
    while pos < n:
        lt = s.find("<", pos)
        if lt < 0:
            yield ("text", s[pos:], None, pos)
            return
        if lt > pos:
            yield ("text", s[pos:lt], None, pos)
        m = _XML_TAG_RE.match(s, lt)
        if m is None:
            if s.startswith(("<!", "<?"), lt):
                raise ValueError(
                    f"malformed XML: unsupported markup {_short(s[lt:lt + 12])} at offset {lt} "
                    f"(not producible by XML_GRAMMAR)"
                )
            raise ValueError(f"not well-formed: bad tag {_short(s[lt:lt + 20])} at offset {lt}")
        attrs = [
            (am.group(1), am.group(2) if am.group(2) is not None else am.group(3))
            for am in _XML_ATTR_RE.finditer(m.group("attrs"))
        ]
        if m.group("close"):
            if attrs or m.group("self"):
                raise ValueError(f"not well-formed: bad closing tag at offset {lt}")
            kind = "close"
        else:
            kind = "selfclose" if m.group("self") else "open"
        yield (kind, m.group("name"), attrs, lt)
        pos = m.end()


def _split_qname(qname: str) -> Tuple[Optional[str], str]:
    if ":" in qname:
        prefix, local = qname.split(":", 1)
        return prefix, local
    return None, qname


def validate_xml(
    s: str,
    check_namespaces: bool = True,
    check_attr_redef: bool = True,
    isla_scoping: bool = True,
) -> Optional[str]:
    """Rules: well-formed element structure with matching open/close names (always);
    the prefix-declaration rule of XML_NAMESPACE_CONSTRAINT (if check_namespaces);
    no attribute name twice in one tag, XML_NO_ATTR_REDEF_CONSTRAINT (if check_attr_redef).
    See the comment block above for the exact reading.

    Implementation: an own tokenizer + stack decides all three rules; independently, a
    NON namespace-aware expat parser (xml.parsers.expat.ParserCreate() without
    namespace_separator) must accept the document; its "duplicate attribute" error is
    ignored when check_attr_redef is off (expat cannot be told to tolerate duplicates).
    """
    try:
        if not isinstance(s, str):
            return "input is not a string"
        if s.strip() == "":
            return "not well-formed: no element found (empty input)"

        # -- own structural pass ------------------------------------------------------
        # stack entries: (qualified name, set of prefixes declared by that open tag)
        stack: List[Tuple[str, Set[str]]] = []
        seen_root = False
        try:
            for kind, name, attrs, pos in _xml_tokens(s):
                if kind == "text":
                    if not stack and name.strip() != "":
                        return f"not well-formed: text {_short(name)} outside the root element"
                    if ">" in name and "]]>" in name:
                        return "not well-formed: ']]>' in character data"
                    continue
                if kind == "close":
                    if not stack:
                        return f"not well-formed: closing tag </{name}> without open element"
                    open_name, _ = stack.pop()
                    if open_name != name:
                        return (
                            f"not well-formed: closing tag </{name}> does not match "
                            f"opening tag <{open_name}>"
                        )
                    continue

                # open or selfclose
                if not stack:
                    if seen_root:
                        return f"not well-formed: second root element <{name}>"
                    seen_root = True

                attr_names = [a for a, _ in attrs]
                if check_attr_redef:
                    dup = sorted({a for a in attr_names if attr_names.count(a) > 1})
                    if dup:
                        return f"attribute {dup[0]!r} defined more than once in tag <{name}>"

                if check_namespaces:
                    declared_here: Set[str] = set()
                    for a in attr_names:
                        p, d = _split_qname(a)
                        if p == "xmlns":
                            if d == "xmlns":
                                return f"namespace rule: reserved prefix declared (xmlns:xmlns) in tag <{name}>"
                            declared_here.add(d)
                    own_counts = kind == "open" or not isla_scoping
                    in_scope: Set[str] = set()
                    for _, decl in stack:
                        in_scope |= decl
                    if own_counts:
                        in_scope |= declared_here
                    if not isla_scoping:
                        in_scope.add("xml")

                    p, _local = _split_qname(name)
                    if p is not None and p not in in_scope:
                        hint = (
                            " (declarations in an openclose tag do not count for XML_NAMESPACE_CONSTRAINT)"
                            if p in declared_here
                            else ""
                        )
                        return f"namespace rule: undeclared prefix {p!r} in element name <{name}>{hint}"
                    for a in attr_names:
                        p, d = _split_qname(a)
                        if p is None or p == "xmlns":
                            continue
                        if p not in in_scope:
                            hint = (
                                " (declarations in an openclose tag do not count for XML_NAMESPACE_CONSTRAINT)"
                                if p in declared_here
                                else ""
                            )
                            return (
                                f"namespace rule: undeclared prefix {p!r} in attribute {a!r} "
                                f"of tag <{name}>{hint}"
                            )
                else:
                    declared_here = set()

                if kind == "open":
                    stack.append((name, declared_here))
        except ValueError as exc:
            return str(exc)
        if stack:
            return f"not well-formed: element <{stack[-1][0]}> is never closed"
        if not seen_root:
            return "not well-formed: no element found"

        # -- second opinion: non namespace-aware expat --------------------------------
        parser = xml.parsers.expat.ParserCreate()  # no namespace_separator: not NS aware
        try:
            parser.Parse(s, True)
        except xml.parsers.expat.ExpatError as exc:
            if not (exc.code == _EXPAT_DUPLICATE_ATTRIBUTE and not check_attr_redef):
                return f"not well-formed (expat): {exc}"
        return None
    except Exception as exc:  # pragma: no cover - defensive
        return f"validator error: {type(exc).__name__}: {exc}"


# =========================================================================== reST
#
# Shipped grammar (rest.py, REST_GRAMMAR), the parts that matter here:
#
#   <body-elements>    ::= <body-element> ("\n" <body-element>)*
#   <body-element>     ::= <section-title> "\n" | <labeled_paragraph> | <paragraph> | <enumeration>
#   <section-title>    ::= <title-text> "\n" <underline>        <underline> ::= "="+ | "-"+
#   <title-text>       ::= one char that is no whitespace and none of -*+_{}`|=  followed by
#                          any printable chars except \n \r \t _ { } ` |   (blanks, \v, \f,
#                          and trailing blanks are possible)
#   <labeled_paragraph>::= ".. _" <id> ":" "\n\n" <paragraph>   <id> ::= one lowercase letter
#   <paragraph>        ::= text without _ { } ` | * (but WITH newlines etc.), in which
#                          references  [<presep>] <id> "_" <postsep>  occur; ends with "\n"
#   <enumeration>      ::= <enumeration_item> ("\n" <enumeration_item>)* "\n"
#   <enumeration_item> ::= <number> ". " <nobr-string>
#
#   Every element ends with "\n" and elements are separated by "\n", so titles, labels and
#   enumerations always start a block (start of document or after a blank line).  The
#   character "_" occurs only in labels (".. _x:") and in references ("x_").
#
# Shipped constraints and the textual rule derived from each:
#
#  LENGTH_UNDERLINE
#     forall <section-title> "{<title-text> titletxt}\n{<underline> underline}":
#       exists int tl, ul: tl > 0 and tl <= ul and ljust_crop(titletxt, tl, " ")
#                                              and extend_crop(underline, ul)
#     ljust_crop/extend_crop(tree, w) hold iff len(str(tree)) == w (isla_predicates.just),
#     hence:  len(underline) >= len(titletxt) > 0  with the RAW string lengths: trailing
#     blanks of the title text count (docutils strips them before comparing, so docutils
#     asks for less).  "underline": for each block-initial line followed by a line made only
#     of "=" or only of "-", that second line must be at least as long as the first one.
#     (`strict_title_length=False` compares against the right-stripped title like docutils.)
#
#  DEF_LINK_TARGETS
#     every reference  x_  (both <internal_reference> and <internal_reference_nospace>)
#     has a <labeled_paragraph> ".. _x:\n\n<paragraph>" somewhere in the document (before or
#     after).  "links": every name used as  name_  has a label line ".. _name:".
#
#  NO_LINK_TARGET_REDEF
#     no two <label>s at different positions with the same id.  "no_redef": no name has two
#     label lines.
#
#  LIST_NUMBERING_CONSECUTIVE
#     for enumeration items item_1, item_2 of one <enumeration> that directly follow each
#     other: number_2 == number_1 + 1 and number_1 > 0.  Nothing is demanded of a single
#     item (a lone "0. x" is fine) and lists need not start at 1.  "numbering": in every
#     block-initial run of lines "<digits>. ...", adjacent lines are numbered n, n+1, n > 0.
#
# docutils (use_docutils=True).  render_rst() in rest.py treats ANY docutils output on
# stderr (i.e. every system message of level >= 2) as a failure and additionally compares
# the number of titles / enumerated lists in the doctree with the derivation tree.  The
# shipped constraints only promise the four rules, and grammar-valid text triggers many
# unrelated docutils warnings (e.g. "Inline emphasis start-string without end-string" for
# a "*" in a list item, "Unexpected indentation", "... ends without a blank line" inside
# paragraphs), so only the messages that are docutils' way of reporting a violation of one
# of the four rules are counted, each under the rule it belongs to (and only if that rule
# is selected in `which`):
#
#   underline: WARNING "Title underline too short."            (only if the reported line is
#              a line of "=" or "-", i.e. an <underline>)
#   links:     ERROR   "Unknown target name: ..."
#   no_redef:  WARNING "Duplicate explicit target name: ..."
#              ERROR   "Duplicate target name, cannot be used as a unique reference: ..."
#   numbering: WARNING "Enumerated list ends without a blank line; unexpected unindent."
#              (only if the reported line and the line before it both look like enumeration
#              items - this is what docutils says when the next number does not follow)
#
# The tree-based counts of render_rst() cannot be mirrored without the derivation tree; the
# own line-based checks cover what they were meant to catch (an underline shorter than 4
# characters that is too short makes docutils silently treat the title as a paragraph; a
# wrongly numbered two-item list is silently treated as a paragraph).
#
# Known imprecision (inherent to having the string only): <paragraph> text may contain
# newlines, so a paragraph can contain lines that read like a title with underline or like
# an enumeration.  The checks read the text like docutils does, so such a paragraph is
# reported if it breaks a rule, although no <section-title>/<enumeration> node exists.

_REST_RULES = ("underline", "links", "no_redef", "numbering")

_REST_UNDERLINE_RE = re.compile(r"^(=+|-+)$")
_REST_PUNCT_LINE_RE = re.compile(r"^([!-/:-@\[-`{-~])\1*$")
_REST_ITEM_RE = re.compile(r"^([0-9]+)\.( |$)")
_REST_LABEL_RE = re.compile(r"^\.\. _([^:`\s][^:`]*):[ \t]*$")
# name_ : a simple reference name directly followed by "_" and then no name character
_REST_REF_RE = re.compile(r"(?<![A-Za-z0-9_])([A-Za-z0-9]+)_(?![A-Za-z0-9_])")

_DOCUTILS_SETTINGS = {
    "input_encoding": "unicode",
    "report_level": 2,  # keep WARNING and above in the doctree
    "halt_level": 5,  # never raise SystemMessage
    "file_insertion_enabled": False,
    "raw_enabled": False,
    "_disable_config": True,  # do not read docutils.conf files: deterministic
    "traceback": False,
}


def _rest_lines(s: str) -> List[str]:
    """Lines as docutils sees them (docutils.statemachine.string2lines): form feed and
    vertical tab become blanks, lines are split with str.splitlines(), tabs are expanded
    to 8 columns and trailing whitespace is removed.  Returned WITHOUT the final rstrip
    (callers strip where docutils would) so that raw title lengths stay available."""
    return [ln.expandtabs(8) for ln in s.replace("\v", " ").replace("\f", " ").splitlines()]


def _is_blank(line: str) -> bool:
    return line.strip() == ""


def _rest_own_checks(s: str, which: Set[str], strict_title_length: bool) -> Optional[str]:
    raw_lines = _rest_lines(s)
    lines = [ln.rstrip() for ln in raw_lines]
    n = len(lines)

    def block_start(i: int) -> bool:
        return i == 0 or lines[i - 1] == ""

    if "underline" in which:
        for i in range(n - 1):
            if lines[i] == "" or not block_start(i):
                continue
            if lines[i][0] == " ":  # indented: block quote, no title
                continue
            if not _REST_UNDERLINE_RE.match(lines[i + 1]):
                continue
            if _REST_PUNCT_LINE_RE.match(lines[i]):  # e.g. "====" over "----": no title text
                continue
            title = raw_lines[i] if strict_title_length else lines[i]
            if len(lines[i + 1]) < len(title):
                return (
                    f"underline rule: line {i + 2}: underline {_short(lines[i + 1], 24)} "
                    f"(length {len(lines[i + 1])}) is shorter than the title text "
                    f"{_short(title)} (length {len(title)})"
                )

    labels: Dict[str, List[int]] = {}
    label_lines: Set[int] = set()
    if "links" in which or "no_redef" in which:
        for i, ln in enumerate(lines):
            m = _REST_LABEL_RE.match(ln)
            if m:
                labels.setdefault(m.group(1).lower(), []).append(i + 1)
                label_lines.add(i)

    if "no_redef" in which:
        for name in sorted(labels):
            if len(labels[name]) > 1:
                return (
                    f"no_redef rule: link target {name!r} is defined {len(labels[name])} times "
                    f"(lines {', '.join(map(str, labels[name]))})"
                )

    if "links" in which:
        for i, ln in enumerate(lines):
            if i in label_lines:
                continue
            for m in _REST_REF_RE.finditer(ln):
                name = m.group(1).lower()
                if name not in labels:
                    return (
                        f"links rule: line {i + 1}: reference {m.group(1) + '_'!r} "
                        f"has no link target '.. _{name}:'"
                    )

    if "numbering" in which:
        i = 0
        while i < n:
            if block_start(i) and _REST_ITEM_RE.match(raw_lines[i]):
                j = i
                while j + 1 < n and _REST_ITEM_RE.match(raw_lines[j + 1]):
                    n1 = int(_REST_ITEM_RE.match(raw_lines[j]).group(1))
                    n2 = int(_REST_ITEM_RE.match(raw_lines[j + 1]).group(1))
                    if n1 <= 0:
                        return (
                            f"numbering rule: line {j + 1}: enumeration item number {n1} "
                            f"is followed by another item but is not > 0"
                        )
                    if n2 != n1 + 1:
                        return (
                            f"numbering rule: line {j + 2}: enumeration item number {n2} "
                            f"follows item number {n1} (expected {n1 + 1})"
                        )
                    j += 1
                i = j + 1
            else:
                i += 1
    return None


def _rest_docutils_messages(s: str) -> List[Tuple[int, Optional[int], str]]:
    """All docutils system messages of level >= 2 as (level, line, first line of text)."""
    from docutils import nodes
    from docutils.core import publish_doctree

    settings = dict(_DOCUTILS_SETTINGS)
    settings["warning_stream"] = io.StringIO()  # swallow, never print
    doctree = publish_doctree(s, settings_overrides=settings)
    found = []
    seen: Set[int] = set()
    candidates = list(doctree.findall(nodes.system_message))
    candidates += list(getattr(doctree, "parse_messages", []))
    candidates += list(getattr(doctree, "transform_messages", []))  # e.g. unknown targets
    for msg in candidates:
        if id(msg) in seen:
            continue
        seen.add(id(msg))
        level = int(msg.get("level", 0))
        if level < 2:
            continue
        text = ""
        for child in msg.children:
            if isinstance(child, nodes.paragraph):
                text = child.astext()
                break
        if not text:
            text = msg.astext()
        found.append((level, msg.get("line"), text.split("\n")[0]))
    return found


def _rest_docutils_check(s: str, which: Set[str]) -> Optional[str]:
    try:
        messages = _rest_docutils_messages(s)
    except Exception as exc:
        return f"docutils raised {type(exc).__name__}: {exc}"
    raw_lines = _rest_lines(s)
    lines = [ln.rstrip() for ln in raw_lines]

    def line_at(no: Optional[int]) -> Optional[str]:
        if isinstance(no, int) and 1 <= no <= len(lines):
            return lines[no - 1]
        return None

    for level, line_no, text in messages:
        rule = None
        if text.startswith("Title underline too short"):
            cur = line_at(line_no)
            if cur is not None and _REST_UNDERLINE_RE.match(cur):
                rule = "underline"
        elif text.startswith("Unknown target name"):
            rule = "links"
        elif text.startswith("Duplicate explicit target name") or text.startswith(
            "Duplicate target name, cannot be used as a unique reference"
        ):
            rule = "no_redef"
        elif text.startswith("Enumerated list ends without a blank line"):
            cur, prev = line_at(line_no), line_at(line_no - 1 if isinstance(line_no, int) else None)
            if cur is not None and prev is not None and _REST_ITEM_RE.match(cur) and _REST_ITEM_RE.match(prev):
                rule = "numbering"
        if rule is not None and rule in which:
            where = f"line {line_no}: " if line_no is not None else ""
            return f"{rule} rule (docutils level {level}): {where}{text}"
    return None


def validate_rest(
    s: str,
    which: Iterable[str] = _REST_RULES,
    use_docutils: bool = True,
    strict_title_length: bool = True,
) -> Optional[str]:
    """Rules "underline", "links", "no_redef", "numbering" (selectable via `which`), each
    checked by an own line-based check derived from the shipped constraint and, if
    use_docutils, by the docutils system messages that report a violation of that rule.
    See the comment block above for the exact reading of each rule."""
    try:
        if not isinstance(s, str):
            return "input is not a string"
        if isinstance(which, str):
            which = (which,)
        selected = set(which)
        unknown = selected - set(_REST_RULES)
        if unknown:
            return f"validator error: unknown rule name(s) {sorted(unknown)}"
        own = _rest_own_checks(s, selected, strict_title_length)
        if own is not None:
            return own
        if use_docutils and selected:
            return _rest_docutils_check(s, selected)
        return None
    except Exception as exc:  # pragma: no cover - defensive
        return f"validator error: {type(exc).__name__}: {exc}"


# =========================================================================== simple TAR
#
# Shipped grammar (simple_tar.py, SIMPLE_TAR_GRAMMAR) - much smaller than a real ustar
# header; there are NO mode/uid/gid/size/mtime fields in this formalization:
#
#   <start>            ::= <entry>+
#   <entry>            ::= <header> "CONTENT"
#   <header>           ::= <file_name> <checksum> <typeflag> <linked_file_name>
#   <file_name>        ::= <file_name_str> NUL*
#   <file_name_str>    ::= [A-Za-z0-9_] followed by printable, non-whitespace ASCII chars
#   <checksum>         ::= [0-7]+ NUL " "
#   <typeflag>         ::= "0" | "2"
#   <linked_file_name> ::= <file_name_str> NUL*  |  NUL+
#
# Shipped constraint (TAR_CONSTRAINTS), conjunct by conjunct:
#
#   file_name_length_constraint         ljust_crop_tar(<file_name>, 100, NUL)
#   linked_file_name_length_constraint  ljust_crop_tar(<linked_file_name>, 100, NUL)
#   checksum_length_constraint          rjust_crop_tar(<checksum>, 8, "0")
#       the *_crop predicates hold iff the field is exactly that long (isla_predicates.just);
#       with the grammar: name + NUL padding = 100 chars; checksum = 6 octal digits, NUL, " ".
#   checksum_constraint                 tar_checksum(<header>, <checksum>)
#       checksum == oct(sum of the header's bytes, with the checksum field replaced by 8
#       blanks) right-justified with "0" to 6 digits, followed by NUL and " ".
#       The header is 100 + 8 + 1 + 100 = 209 bytes; "CONTENT" is not part of the sum.
#   link_constraint                     for every entry: typeflag is "0", or typeflag is "2"
#       and, if the linked file name is not all NULs, some OTHER entry's file name (the part
#       before the NUL padding) equals the linked file name.  (check_links=False skips
#       this conjunct: a dangling symlink is still a readable archive.)
#
# Since every field has a fixed width under these constraints, an input is valid iff it
# is a sequence of 216-character entries with each field at its fixed offset; that is
# what is checked.  A tolerant regular-expression parse is used only to word the reason.

_TAR_NAME_STR = r"[A-Za-z0-9_][!-~]*"
_TAR_FILE_NAME_RE = re.compile(r"^(" + _TAR_NAME_STR + r")(\x00*)$")
_TAR_LINKED_NAME_RE = re.compile(r"^(?:(" + _TAR_NAME_STR + r")(\x00*)|\x00+)$")
_TAR_CHECKSUM_RE = re.compile(r"^[0-7]{6}\x00 $")
_TAR_LOOSE_ENTRY_RE = re.compile(
    r"(?P<name>" + _TAR_NAME_STR + r"?\x00*?)(?P<chk>[0-7]+\x00 )(?P<flag>[02])"
    r"(?P<linked>(?:" + _TAR_NAME_STR + r"?)?\x00*)CONTENT"
)
_TAR_ENTRY_LEN = 100 + 8 + 1 + 100 + len("CONTENT")


def _tar_explain_layout(s: str, start: int, k: int) -> str:
    m = _TAR_LOOSE_ENTRY_RE.match(s, start)
    if m is not None:
        if len(m.group("name")) != 100:
            return f"entry {k}: file name field is {len(m.group('name'))} characters long, expected 100"
        if len(m.group("chk")) != 8:
            return f"entry {k}: checksum field is {len(m.group('chk'))} characters long, expected 8"
        if len(m.group("linked")) != 100:
            return (
                f"entry {k}: linked file name field is {len(m.group('linked'))} characters long, "
                f"expected 100"
            )
    return f"entry {k}: does not have the fixed 100+8+1+100+'CONTENT' layout"


def validate_simple_tar(s: str, check_links: bool = True) -> Optional[str]:
    """Rules (TAR_CONSTRAINTS): per entry, file name = name + NUL padding to exactly 100
    characters; checksum field = 6 octal digits + NUL + blank and equal to the recomputed
    header checksum; typeflag "0" or "2"; linked file name = name + NUL padding or only
    NULs, exactly 100 characters; then the literal "CONTENT".  If check_links: a typeflag
    "2" entry with a linked name refers to the file name of another entry."""
    try:
        if not isinstance(s, str):
            return "input is not a string"
        if s == "":
            return "no entry (empty input)"
        entries = []
        pos, k = 0, 0
        while pos < len(s):
            k += 1
            chunk = s[pos : pos + _TAR_ENTRY_LEN]
            name_f, chk_f = chunk[0:100], chunk[100:108]
            flag_f, linked_f, content_f = chunk[108:109], chunk[109:209], chunk[209:216]
            layout_ok = (
                len(chunk) == _TAR_ENTRY_LEN
                and _TAR_FILE_NAME_RE.match(name_f)
                and re.match(r"^[0-7]+\x00 $", chk_f)
                and flag_f in ("0", "2")
                and _TAR_LINKED_NAME_RE.match(linked_f)
                and content_f == "CONTENT"
            )
            if not layout_ok:
                # word the reason as precisely as possible
                if len(chunk) == _TAR_ENTRY_LEN and content_f == "CONTENT":
                    if not _TAR_FILE_NAME_RE.match(name_f):
                        loose = _tar_explain_layout(s, pos, k)
                        if "layout" not in loose:
                            return loose
                        return (
                            f"entry {k}: file name field {_short(name_f.rstrip(chr(0)))} is not "
                            f"a name followed by NUL padding to 100 characters"
                        )
                    if not re.match(r"^[0-7]+\x00 $", chk_f):
                        return f"entry {k}: checksum field {chk_f!r} is not octal digits + NUL + blank in 8 characters"
                    if flag_f not in ("0", "2"):
                        return f"entry {k}: typeflag {flag_f!r} is not '0' or '2'"
                    return (
                        f"entry {k}: linked file name field is not a name (or nothing) followed by "
                        f"NUL padding to 100 characters"
                    )
                return _tar_explain_layout(s, pos, k)

            if not _TAR_CHECKSUM_RE.match(chk_f):  # pragma: no cover - implied by layout
                return f"entry {k}: checksum field {chk_f!r} is not 6 octal digits + NUL + blank"
            header_wo_checksum = name_f + " " * 8 + flag_f + linked_f
            total = sum(ord(c) for c in header_wo_checksum)
            expected = "%06o" % total + "\x00 "
            if chk_f != expected:
                return (
                    f"entry {k}: checksum field {chk_f!r} does not match the recomputed "
                    f"header checksum {expected!r} (byte sum {total})"
                )
            name = _TAR_FILE_NAME_RE.match(name_f).group(1)
            lm = _TAR_LINKED_NAME_RE.match(linked_f)
            entries.append((name, flag_f, lm.group(1)))
            pos += _TAR_ENTRY_LEN

        if check_links:
            for idx, (name, flag, linked) in enumerate(entries):
                if flag == "2" and linked is not None:
                    if not any(j != idx and other[0] == linked for j, other in enumerate(entries)):
                        return (
                            f"entry {idx + 1}: symbolic link target {_short(linked)} is not the "
                            f"file name of another entry"
                        )
        return None
    except Exception as exc:  # pragma: no cover - defensive
        return f"validator error: {type(exc).__name__}: {exc}"


VALIDATORS: Dict[str, Callable[..., Optional[str]]] = {
    "csv": validate_csv,
    "xml": validate_xml,
    "rest": validate_rest,
    "tar": validate_simple_tar,
}
