"""C14 oracles: a tree built to a target (length / numeric value / count) meets it."""

import re
from typing import Optional

from oracles import grammar as og
from oracles.grammar import MNode, is_closed, iter_nodes, tree_yield, validate_tree

_NUMERAL = re.compile(r"^[+-]?0*[0-9]+$")


def judge_fixed_length(g, nt: str, n: int, m: MNode, isla_str: str) -> Optional[str]:
    if not is_closed(m):
        return f"tree for {nt} of length {n} is not closed"
    v = validate_tree(m, g, nt, check_ids=True)
    if v:
        return f"tree for {nt} of length {n} is not a derivation tree: {v}"
    y = tree_yield(m)
    if len(y) != n:
        return f"create_fixed_length_tree({nt}, n={n}) -> {y!r} (length {len(y)})"
    if isla_str != y:
        return f"str(tree)={isla_str!r} differs from yield {y!r}"
    return None


def judge_numeric(g, nt: str, value: int, m: MNode) -> Optional[str]:
    if not is_closed(m):
        return f"numeric tree for {nt} is not closed"
    v = validate_tree(m, g, nt, check_ids=True)
    if v:
        return f"numeric tree for {nt} value {value} is not a derivation tree: {v}"
    y = tree_yield(m)
    if not _NUMERAL.match(y):
        return f"numeric tree for {nt}: yield {y!r} is not of the form [+-]?0*digits"
    if int(y) != value:
        return f"numeric tree for {nt}: yield {y!r} denotes {int(y)}, model value is {value}"
    return None


def judge_count(g, root_label: str, needle: str, k: int, m: MNode) -> Optional[str]:
    if m.label != root_label:
        return f"root changed {root_label} -> {m.label}"
    v = validate_tree(m, g, root_label, allow_open=True, check_ids=True)
    if v:
        return f"count completion is not a derivation tree: {v}"
    got = sum(1 for _, nd in iter_nodes(m) if nd.label == needle)
    if got != k:
        return f"count completion has {got} {needle} nodes, requested {k}"
    r = og.reach(g)
    for p, nd in iter_nodes(m):
        # an open leaf labelled with the needle itself is one (counted) occurrence; it is
        # a problem only if expanding a leaf can produce *further* needles
        if nd.children is None and needle in r.get(nd.label, ()):
            return f"open leaf {nd.label} at {p} can still produce {needle} (requested exactly {k})"
    return None
