"""Oracle-S: an independent evaluator for the ISLa fragment the generator emits, on
closed model trees (oracles.grammar.MNode), following the ISLa language specification.

Formula AST (JSON-friendly nested lists):

  ["forall"|"exists", "<T>", var, mexpr|None, in_var, body]
  ["forall_int"|"exists_int", var, body]
  ["and", f...], ["or", f...], ["not", f], ["implies", a, b], ["iff", a, b], ["xor", a, b]
  ["smt", term]          term: ["v", name] | ["s", str] | ["i", int] | [op, term...]
  ["pred", name, arg...] arg:  ["v", name] | ["s", str] | ["i", int]
  ["count", ["v", tree_var], "<N>", ["i", k] | ["v", int_var]]
  ["true"], ["false"]

  mexpr: list of ["t", text] | ["n", "<nt>"] | ["b", var, "<nt>"]

The oracle decides (True/False) or abstains (raises Abstain).  It never guesses.
"""

from typing import Any, Dict, List, Optional, Sequence, Tuple

import z3

from oracles.grammar import MNode, iter_nodes, is_nt, tree_yield
from sim.seams import oracle_check

Path = Tuple[int, ...]


class Abstain(Exception):
    pass


# --------------------------------------------------------------------------- z3 terms


def _mk_eq(a, b):
    return z3.BoolRef(z3.Z3_mk_eq(a.ctx_ref(), a.as_ast(), b.as_ast()), a.ctx)


def _re(term, env) -> Any:
    op = term[0]
    if op == "str.to_re":
        return z3.Re(_str(term[1], env))
    if op == "re.range":
        return z3.Range(term[1][1], term[2][1])
    if op == "re.++":
        return z3.Concat(*[_re(t, env) for t in term[1:]])
    if op == "re.union":
        return z3.Union(*[_re(t, env) for t in term[1:]])
    if op == "re.*":
        return z3.Star(_re(term[1], env))
    if op == "re.+":
        return z3.Plus(_re(term[1], env))
    if op == "re.opt":
        return z3.Option(_re(term[1], env))
    if op == "re.loop":
        return z3.Loop(_re(term[1], env), term[2][1], term[3][1])
    if op == "re.allchar":
        return z3.AllChar(z3.ReSort(z3.StringSort()))
    if op == "re.all":
        return z3.Full(z3.ReSort(z3.StringSort()))
    raise Abstain(f"regex op {op}")


def _str(term, env):
    op = term[0]
    if op == "v":
        val = env[term[1]]
        if isinstance(val, tuple):  # (path, node)
            val = tree_yield(val[1])
        if isinstance(val, int):
            val = str(val)
        return z3.StringVal(val)
    if op == "s":
        return z3.StringVal(term[1])
    if op == "str.++":
        return z3.Concat(*[_str(t, env) for t in term[1:]])
    if op == "str.at":
        return z3.SubString(_str(term[1], env), _int(term[2], env), z3.IntVal(1))
    if op == "str.substr":
        return z3.SubString(
            _str(term[1], env), _int(term[2], env), _int(term[3], env)
        )
    if op == "str.replace":
        return z3.Replace(
            _str(term[1], env), _str(term[2], env), _str(term[3], env)
        )
    if op == "str.from_int":
        return z3.IntToStr(_int(term[1], env))
    raise Abstain(f"string op {op}")


def _int(term, env):
    op = term[0]
    if op == "i":
        return z3.IntVal(term[1])
    if op == "str.to.int":
        return z3.StrToInt(_str(term[1], env))
    if op == "str.len":
        return z3.Length(_str(term[1], env))
    if op == "str.indexof":
        return z3.IndexOf(_str(term[1], env), _str(term[2], env), _int(term[3], env))
    if op == "+":
        r = _int(term[1], env)
        for t in term[2:]:
            r = r + _int(t, env)
        return r
    if op == "-":
        if len(term) == 2:
            return -_int(term[1], env)
        r = _int(term[1], env)
        for t in term[2:]:
            r = r - _int(t, env)
        return r
    if op == "*":
        r = _int(term[1], env)
        for t in term[2:]:
            r = r * _int(t, env)
        return r
    if op == "div":
        return _int(term[1], env) / _int(term[2], env)
    if op == "mod":
        return _int(term[1], env) % _int(term[2], env)
    if op == "abs":
        x = _int(term[1], env)
        return z3.If(x >= 0, x, -x)
    raise Abstain(f"int op {op}")


_STR_OPS = {"v", "s", "str.++", "str.at", "str.substr", "str.replace", "str.from_int"}


def _is_str_term(term) -> bool:
    return term[0] in _STR_OPS


def _bool(term, env):
    op = term[0]
    if op == "true":
        return z3.BoolVal(True)
    if op == "false":
        return z3.BoolVal(False)
    if op == "=":
        if _is_str_term(term[1]) or _is_str_term(term[2]):
            return _mk_eq(_str(term[1], env), _str(term[2], env))
        return _mk_eq(_int(term[1], env), _int(term[2], env))
    if op in ("<", "<=", ">", ">="):
        a, b = _int(term[1], env), _int(term[2], env)
        return {"<": a < b, "<=": a <= b, ">": a > b, ">=": a >= b}[op]
    if op == "str.<":
        return _str(term[1], env) < _str(term[2], env)
    if op == "str.<=":
        return _str(term[1], env) <= _str(term[2], env)
    if op == "str.prefixof":
        return z3.PrefixOf(_str(term[1], env), _str(term[2], env))
    if op == "str.suffixof":
        return z3.SuffixOf(_str(term[1], env), _str(term[2], env))
    if op == "str.contains":
        return z3.Contains(_str(term[1], env), _str(term[2], env))
    if op == "str.in_re":
        return z3.InRe(_str(term[1], env), _re(term[2], env))
    if op == "not":
        return z3.Not(_bool(term[1], env))
    if op == "and":
        return z3.And(*[_bool(t, env) for t in term[1:]])
    if op == "or":
        return z3.Or(*[_bool(t, env) for t in term[1:]])
    if op == "=>":
        return z3.Implies(_bool(term[1], env), _bool(term[2], env))
    if op == "xor":
        return z3.Xor(_bool(term[1], env), _bool(term[2], env))
    raise Abstain(f"bool op {op}")


def eval_smt(term, env) -> bool:
    """Ground evaluation of an SMT-LIB atom by Z3 itself (separate, never
    fault-injected)."""
    expr = _bool(term, env)
    simp = z3.simplify(expr)
    if z3.is_true(simp):
        return True
    if z3.is_false(simp):
        return False
    s = z3.Solver()
    s.add(simp)
    r = oracle_check(s)
    if r == z3.sat:
        return True
    if r == z3.unsat:
        return False
    raise Abstain("z3 unknown on ground atom")


# --------------------------------------------------------------------------- predicates


def before(p1: Path, p2: Path) -> bool:
    """Strictly earlier in document order, neither below the other."""
    n = min(len(p1), len(p2))
    if p1[:n] == p2[:n]:
        return False  # equal or one is an ancestor of the other
    return p1 < p2


def get(root: MNode, path: Path) -> MNode:
    node = root
    for i in path:
        node = node.children[i]
    return node


def eval_pred(name: str, args: List[Any], root: MNode) -> bool:
    """args: resolved arguments: (path, node) for tree vars, str/int literals."""
    if name == "before":
        return before(args[0][0], args[1][0])
    if name == "after":
        return before(args[1][0], args[0][0])
    if name == "inside":
        p1, p2 = args[0][0], args[1][0]
        return p1[: len(p2)] == p2
    if name == "same_position":
        return args[0][0] == args[1][0]
    if name == "different_position":
        return args[0][0] != args[1][0]
    if name == "direct_child":
        p1, p2 = args[0][0], args[1][0]
        return len(p1) == len(p2) + 1 and p1[:-1] == p2
    if name == "nth":
        n = int(args[0])
        p1, p2 = args[1][0], args[2][0]
        if p1[: len(p2)] != p2:
            return False
        label = get(root, p1).label
        idx = 0
        for rel, node in iter_nodes(get(root, p2)):
            if node.label == label:
                idx += 1
                if p2 + rel == p1:
                    return idx == n
        return False
    if name == "consecutive":
        p1, p2 = args[0][0], args[1][0]
        if not before(p1, p2):
            return False
        # no leaf strictly between the two nodes (in document order, outside both)
        for path, node in iter_nodes(root):
            if node.children:
                continue
            if before(p1, path) and before(path, p2):
                return False
        return True
    if name == "level":
        op, nt = args[0], args[1]
        p1, p2 = args[2][0], args[3][0]
        return level(root, op, nt, p1, p2)
    raise Abstain(f"predicate {name}")


def level(root: MNode, op: str, nt: str, p1: Path, p2: Path) -> bool:
    """Documented meaning (isla_predicates.level_check docstring / spec): there is a
    common prefix of both paths that points to an `nt` node (or the empty prefix,
    i.e. outside of any `nt` scope), such that for the remaining path fragments
    (strictly between that prefix and the node itself):
      EQ: neither points to an `nt` node;  GE: the one of arg 1 does not;
      LE: the one of arg 2 does not;  GT: arg 1 none and arg 2 at least one;
      LT: arg 2 none and arg 1 at least one."""
    prefixes: List[Path] = [()]
    for idx in range(min(len(p1), len(p2))):
        if p1[idx] != p2[idx]:
            break
        pre = p1[: idx + 1]
        if get(root, pre).label == nt:
            prefixes.append(pre)
    for pre in prefixes:
        occ = []
        for p in (p1, p2):
            occ.append(
                [
                    k
                    for k in range(len(pre) + 1, len(p))
                    if get(root, p[:k]).label == nt
                ]
            )
        o1, o2 = occ
        if op == "EQ" and not o1 and not o2:
            return True
        if op == "GE" and not o1:
            return True
        if op == "LE" and not o2:
            return True
        if op == "GT" and not o1 and o2:
            return True
        if op == "LT" and not o2 and o1:
            return True
    return False


def count_nodes(node: MNode, needle: str) -> int:
    return sum(1 for _, n in iter_nodes(node) if n.label == needle)


# --------------------------------------------------------------------------- mexpr


def mexpr_atoms(mexpr) -> List[Tuple[str, Any]]:
    """Flattens a match expression into atoms: ('c', char) | ('n', nt, var|None)."""
    atoms: List[Tuple[str, Any]] = []
    for el in mexpr:
        if el[0] == "t":
            for ch in el[1]:
                atoms.append(("c", ch))
        elif el[0] == "n":
            atoms.append(("n", el[1], None))
        elif el[0] == "b":
            atoms.append(("n", el[2], el[1]))
        else:
            raise Abstain(f"mexpr element {el[0]}")
    return atoms


def match_mexpr(
    node: MNode, path: Path, mexpr, cap: int = 2
) -> List[Dict[str, Tuple[Path, MNode]]]:
    """All ways (up to `cap`) in which the subtree `node` matches the match
    expression: cuts through the subtree whose frontier spells the expression.  The
    root itself must be expanded (a match expression describes an expansion of the
    quantified nonterminal)."""
    atoms = mexpr_atoms(mexpr)
    results: List[Dict[str, Tuple[Path, MNode]]] = []

    def spell(nd: MNode, pth: Path, pos: int, allow_cut: bool):
        """Generator of (new_pos, bindings) for covering subtree nd from atoms[pos]."""
        if is_nt(nd.label) or nd.children:
            if (
                allow_cut
                and pos < len(atoms)
                and atoms[pos][0] == "n"
                and atoms[pos][1] == nd.label
            ):
                var = atoms[pos][2]
                yield pos + 1, ({var: (pth, nd)} if var else {})
            if nd.children is None:
                return
            yield from spell_seq(nd.children, pth, 0, pos)
        else:
            # terminal leaf
            text = nd.label
            k = pos
            for ch in text:
                if k < len(atoms) and atoms[k] == ("c", ch):
                    k += 1
                else:
                    return
            yield k, {}

    def spell_seq(children, pth: Path, idx: int, pos: int):
        if idx == len(children):
            yield pos, {}
            return
        for p1, b1 in spell(children[idx], pth + (idx,), pos, True):
            for p2, b2 in spell_seq(children, pth, idx + 1, p1):
                yield p2, {**b1, **b2}

    for end, bindings in spell(node, path, 0, False):
        if end == len(atoms):
            if bindings not in results:
                results.append(bindings)
            if len(results) >= cap:
                break
    return results


# --------------------------------------------------------------------------- formulas


class Evaluator:
    def __init__(self, root: MNode, start_var: str = "start"):
        self.root = root
        self.start_var = start_var
        self.nodes = list(iter_nodes(root))
        self.quantifier_matches = 0  # non-triviality measure
        self.atoms_evaluated = 0

    def _subtrees(self, in_val: Tuple[Path, MNode], label: str):
        base_path, base = in_val
        for rel, node in iter_nodes(base):
            if node.label == label:
                yield base_path + rel, node

    def _int_range(self, body, env) -> range:
        """Candidate values for a numeric quantifier in the exact sub-fragment:
        the variable occurs only in count atoms (generator invariant).  Truth is
        then constant beyond max(node count) + 1."""
        # ... or in comparisons of (str.to.int var) with integer literals: truth is
        # constant beyond max(all counts, all literals) + 1
        biggest = [0]

        def walk(t):
            if isinstance(t, list):
                if len(t) == 2 and t[0] == "i" and isinstance(t[1], int):
                    biggest[0] = max(biggest[0], abs(t[1]))
                for x in t:
                    walk(x)

        walk(body)
        return range(0, len(self.nodes) + biggest[0] + 3)

    def eval(self, f, env: Optional[Dict[str, Any]] = None) -> bool:
        if env is None:
            env = {self.start_var: ((), self.root)}
        op = f[0]
        if op == "true":
            return True
        if op == "false":
            return False
        if op == "and":
            return all(self.eval(g, env) for g in f[1:])
        if op == "or":
            return any(self.eval(g, env) for g in f[1:])
        if op == "not":
            return not self.eval(f[1], env)
        if op == "implies":
            return (not self.eval(f[1], env)) or self.eval(f[2], env)
        if op == "iff":
            return self.eval(f[1], env) == self.eval(f[2], env)
        if op == "xor":
            return self.eval(f[1], env) != self.eval(f[2], env)
        if op == "smt":
            self.atoms_evaluated += 1
            return eval_smt(f[1], env)
        if op == "pred":
            self.atoms_evaluated += 1
            args = []
            for a in f[2:]:
                if a[0] == "v":
                    args.append(env[a[1]])
                else:
                    args.append(a[1])
            return eval_pred(f[1], args, self.root)
        if op == "count":
            self.atoms_evaluated += 1
            tv = env[f[1][1]]
            k = f[3]
            kval = k[1] if k[0] == "i" else env[k[1]]
            return count_nodes(tv[1], f[2]) == int(kval)
        if op in ("forall", "exists"):
            _, label, var, mexpr, in_var, body = f
            results = []
            for path, node in self._subtrees(env[in_var], label):
                if mexpr is None:
                    matches = [{}]
                else:
                    matches = match_mexpr(node, path, mexpr)
                    if len(matches) > 1:
                        raise Abstain("ambiguous match expression on this tree")
                for m in matches:
                    self.quantifier_matches += 1
                    new_env = dict(env)
                    new_env[var] = (path, node)
                    new_env.update(m)
                    r = self.eval(body, new_env)
                    if op == "forall" and not r:
                        return False
                    if op == "exists" and r:
                        return True
            return op == "forall"
        if op in ("forall_int", "exists_int"):
            _, var, body = f
            for n in self._int_range(body, env):
                new_env = dict(env)
                new_env[var] = n
                r = self.eval(body, new_env)
                if op == "forall_int" and not r:
                    return False
                if op == "exists_int" and r:
                    return True
            return op == "forall_int"
        raise Abstain(f"formula op {op}")


def satisfies(root: MNode, formula) -> Tuple[bool, Dict[str, int]]:
    ev = Evaluator(root)
    r = ev.eval(formula)
    return r, {
        "quantifier_matches": ev.quantifier_matches,
        "atoms_evaluated": ev.atoms_evaluated,
    }


# --------------------------------------------------------------------------- printer


def esc(s: str) -> str:
    return s.replace("\\", "\\\\").replace('"', '\\"')


def print_term(t) -> str:
    op = t[0]
    if op == "v":
        return t[1]
    if op == "s":
        return '"' + esc(t[1]) + '"'
    if op == "i":
        return str(t[1]) if t[1] >= 0 else f"(- {-t[1]})"
    if op in ("re.allchar", "re.all") and len(t) == 1:
        return op
    if op == "re.loop":
        return f"(re.loop {print_term(t[1])} {t[2][1]} {t[3][1]})"
    return "(" + op + " " + " ".join(print_term(x) for x in t[1:]) + ")"


def print_mexpr(mexpr) -> str:
    out = ""
    for el in mexpr:
        if el[0] == "t":
            out += esc(el[1])
        elif el[0] == "n":
            out += el[1]
        else:
            out += "{" + el[2] + " " + el[1] + "}"
    return out


def print_formula(f) -> str:
    op = f[0]
    if op in ("true", "false"):
        return op
    if op in ("and", "or"):
        if len(f) == 2:
            return print_formula(f[1])
        return "(" + f" {op} ".join(print_formula(g) for g in f[1:]) + ")"
    if op == "not":
        return "(not " + print_formula(f[1]) + ")"
    if op in ("implies", "iff", "xor"):
        return f"({print_formula(f[1])} {op} {print_formula(f[2])})"
    if op == "smt":
        return print_term(f[1])
    if op == "pred":
        args = []
        for a in f[2:]:
            if a[0] == "v":
                args.append(a[1])
            else:
                args.append('"' + esc(str(a[1])) + '"')
        return f"{f[1]}({', '.join(args)})"
    if op == "count":
        k = f[3]
        ks = k[1] if k[0] == "v" else f'"{k[1]}"'
        return f'count({f[1][1]}, "{f[2]}", {ks})'
    if op in ("forall", "exists"):
        _, label, var, mexpr, in_var, body = f
        m = "" if mexpr is None else '="' + print_mexpr(mexpr) + '"'
        return f"({op} {label} {var}{m} in {in_var}: {print_formula(body)})"
    if op in ("forall_int", "exists_int"):
        return f"({op[:6]} int {f[1]}: {print_formula(f[2])})"
    raise ValueError(op)
