"""Oracle-G: an independent model of grammars and derivation trees.

Shares no code with ISLa.  Trees are converted by touching only the public attributes
`.value`, `.children`, `.id` of ISLa's DerivationTree.
"""

from functools import lru_cache
from typing import Dict, FrozenSet, Iterable, List, Optional, Sequence, Set, Tuple

Grammar = Dict[str, List[str]]


class MNode:
    __slots__ = ("label", "id", "children")

    def __init__(self, label: str, id_: Optional[int], children):
        self.label = label
        self.id = id_
        self.children = None if children is None else tuple(children)

    def __repr__(self):
        return f"MNode({self.label!r}, {self.id}, {self.children!r})"


def to_model(tree) -> MNode:
    """ISLa DerivationTree -> MNode (iterative; trees may be deep)."""
    root_holder: List[MNode] = []
    stack = [(tree, root_holder)]
    order: List[Tuple[MNode, object]] = []
    while stack:
        t, out = stack.pop()
        ch = t.children
        node = MNode(t.value, t.id, None if ch is None else ())
        out.append(node)
        if ch is not None:
            holder: List[MNode] = []
            order.append((node, holder, len(ch)))
            for c in reversed(ch):
                stack.append((c, holder))
    for node, holder, n in order:
        assert len(holder) == n
        node.children = tuple(holder)
    return root_holder[0]


def is_nt(sym: str) -> bool:
    return (
        len(sym) >= 2
        and sym[0] == "<"
        and sym[-1] == ">"
        and not any(c in "<> " for c in sym[1:-1])
    )


def tokenize(expansion: str) -> List[str]:
    """Splits an expansion string into nonterminal symbols and maximal terminal
    strings.  A nonterminal is '<' + chars other than '<', '>', ' ' + '>'."""
    out: List[str] = []
    i = 0
    n = len(expansion)
    cur = ""
    while i < n:
        c = expansion[i]
        if c == "<":
            j = i + 1
            while j < n and expansion[j] not in "<> ":
                j += 1
            if j < n and expansion[j] == ">":
                if cur:
                    out.append(cur)
                    cur = ""
                out.append(expansion[i : j + 1])
                i = j + 1
                continue
        cur += c
        i += 1
    if cur:
        out.append(cur)
    return out


_CANON_CACHE: Dict[int, Tuple[Grammar, Dict[str, List[List[str]]]]] = {}


def canonical(grammar: Grammar) -> Dict[str, List[List[str]]]:
    """Tokenised grammar.  Cached per grammar object (grammars are never mutated by
    the harness; the cache keeps a reference so that ids are not reused)."""
    hit = _CANON_CACHE.get(id(grammar))
    if hit is not None and hit[0] is grammar:
        return hit[1]
    can = {nt: [tokenize(e) for e in alts] for nt, alts in grammar.items()}
    if len(_CANON_CACHE) > 64:
        _CANON_CACHE.clear()
    _CANON_CACHE[id(grammar)] = (grammar, can)
    return can


def iter_nodes(root: MNode):
    """Pre-order (path, node)."""
    stack = [((), root)]
    while stack:
        path, node = stack.pop()
        yield path, node
        if node.children:
            for i in range(len(node.children) - 1, -1, -1):
                stack.append((path + (i,), node.children[i]))


def tree_yield(root: MNode) -> str:
    parts: List[str] = []
    for _, node in iter_nodes(root):
        if node.children is not None and len(node.children) == 0:
            if not is_nt(node.label):
                parts.append(node.label)
    return "".join(parts)


def is_closed(root: MNode) -> bool:
    return all(node.children is not None for _, node in iter_nodes(root))


def validate_tree(
    root: MNode,
    grammar: Grammar,
    root_label: Optional[str] = None,
    allow_open: bool = False,
    check_ids: bool = True,
) -> Optional[str]:
    """Returns None if `root` is a derivation tree of `grammar`, else a reason."""
    can = canonical(grammar)
    if root_label is not None and root.label != root_label:
        return f"root label {root.label!r} != {root_label!r}"
    seen_ids: Set[int] = set()
    for path, node in iter_nodes(root):
        if check_ids:
            if node.id in seen_ids:
                return f"duplicate node id {node.id} at {path}"
            seen_ids.add(node.id)
        if is_nt(node.label):
            if node.label not in can:
                return f"unknown nonterminal {node.label!r} at {path}"
            if node.children is None:
                if not allow_open:
                    return f"open leaf {node.label!r} at {path}"
                continue
            labels = [c.label for c in node.children]
            ok = False
            for alt in can[node.label]:
                if alt == labels:
                    ok = True
                    break
                # epsilon alternative: ISLa represents "" as one child with label ""
                # or as no child at all
                if not alt and (labels == [""] or labels == []):
                    ok = True
                    break
            if not ok:
                return (
                    f"children {labels!r} of {node.label!r} at {path} "
                    f"match no alternative"
                )
        else:
            # terminal
            if node.children is None:
                return f"terminal {node.label!r} at {path} has children=None"
            if len(node.children) != 0:
                return f"terminal {node.label!r} at {path} has children"
    return None


# ------------------------------------------------------------------ reachability


def reach(grammar: Grammar) -> Dict[str, FrozenSet[str]]:
    """nt -> set of nonterminals reachable in >= 1 derivation step."""
    can = canonical(grammar)
    direct = {
        nt: {s for alt in alts for s in alt if is_nt(s)} for nt, alts in can.items()
    }
    result = {nt: set(d) for nt, d in direct.items()}
    changed = True
    while changed:
        changed = False
        for nt in result:
            new = set()
            for m in result[nt]:
                new |= direct.get(m, set())
            if not new <= result[nt]:
                result[nt] |= new
                changed = True
    return {nt: frozenset(s) for nt, s in result.items()}


def nullable_set(grammar: Grammar) -> Set[str]:
    can = canonical(grammar)
    nullable: Set[str] = set()
    changed = True
    while changed:
        changed = False
        for nt, alts in can.items():
            if nt in nullable:
                continue
            for alt in alts:
                if all((s in nullable) if is_nt(s) else s == "" for s in alt):
                    nullable.add(nt)
                    changed = True
                    break
    return nullable


def productive(grammar: Grammar) -> Set[str]:
    can = canonical(grammar)
    prod: Set[str] = set()
    changed = True
    while changed:
        changed = False
        for nt, alts in can.items():
            if nt in prod:
                continue
            for alt in alts:
                if all((s in prod) if is_nt(s) else True for s in alt):
                    prod.add(nt)
                    changed = True
                    break
    return prod


# ------------------------------------------------------------------ recogniser


class Recognizer:
    """Earley recogniser (own implementation) on the character level.
    member(s, start) <=> s in L(start)."""

    def __init__(self, grammar: Grammar):
        self.can = canonical(grammar)
        # rules as tuples of symbols; terminals split into single characters
        self.rules: Dict[str, List[Tuple[Tuple[str, bool], ...]]] = {}
        for nt, alts in self.can.items():
            rs = []
            for alt in alts:
                syms: List[Tuple[str, bool]] = []
                for s in alt:
                    if is_nt(s):
                        syms.append((s, True))
                    else:
                        for ch in s:
                            syms.append((ch, False))
                rs.append(tuple(syms))
            self.rules[nt] = rs
        self.nullable = nullable_set(grammar)

    def member(self, s: str, start: str = "<start>") -> bool:
        if start not in self.rules:
            return False
        n = len(s)
        # item: (nt, rule_index, dot, origin)
        chart: List[Set[Tuple[str, int, int, int]]] = [set() for _ in range(n + 1)]
        work: List[List[Tuple[str, int, int, int]]] = [[] for _ in range(n + 1)]

        def add(k, item):
            if item not in chart[k]:
                chart[k].add(item)
                work[k].append(item)

        for ri in range(len(self.rules[start])):
            add(0, (start, ri, 0, 0))
        for k in range(n + 1):
            i = 0
            while i < len(work[k]):
                nt, ri, dot, origin = work[k][i]
                i += 1
                rule = self.rules[nt][ri]
                if dot < len(rule):
                    sym, isnt = rule[dot]
                    if isnt:
                        for rj in range(len(self.rules.get(sym, []))):
                            add(k, (sym, rj, 0, k))
                        if sym in self.nullable:
                            add(k, (nt, ri, dot + 1, origin))
                    else:
                        if k < n and s[k] == sym:
                            add(k + 1, (nt, ri, dot + 1, origin))
                else:
                    # completion
                    for pnt, pri, pdot, porigin in list(chart[origin]):
                        prule = self.rules[pnt][pri]
                        if pdot < len(prule) and prule[pdot] == (nt, True):
                            add(k, (pnt, pri, pdot + 1, porigin))
        return any(
            nt == start and origin == 0 and dot == len(self.rules[nt][ri])
            for nt, ri, dot, origin in chart[n]
        )


def count_parses(
    grammar: Grammar, s: str, start: str = "<start>", cap: int = 2
) -> int:
    """Number of distinct derivation trees of `s` from `start`, capped at `cap`.
    Only for grammars without cyclic unit/nullable derivations (generator invariant).
    Used to decide whether a grammar is unambiguous *for a given string*."""
    can = canonical(grammar)
    n = len(s)
    nullable = nullable_set(grammar)
    memo: Dict[Tuple[str, int, int], int] = {}
    in_progress: Set[Tuple[str, int, int]] = set()

    def count_sym(sym: str, i: int, j: int) -> int:
        if not is_nt(sym):
            return 1 if s[i:j] == sym else 0
        key = (sym, i, j)
        if key in memo:
            return memo[key]
        if key in in_progress:
            return 0  # cyclic derivation: excluded by generator
        in_progress.add(key)
        total = 0
        for alt in can.get(sym, []):
            total += count_seq(tuple(alt), 0, i, j)
            if total >= cap:
                total = cap
                break
        in_progress.discard(key)
        memo[key] = total
        return total

    def min_len(sym: str) -> int:
        if not is_nt(sym):
            return len(sym)
        return 0 if sym in nullable else 1

    def count_seq(alt: Tuple[str, ...], k: int, i: int, j: int) -> int:
        if k == len(alt):
            return 1 if i == j else 0
        if k == len(alt) - 1:
            return count_sym(alt[k], i, j)
        sym = alt[k]
        total = 0
        rest_min = sum(min_len(x) for x in alt[k + 1 :])
        if not is_nt(sym):
            m = i + len(sym)
            if m <= j and s[i:m] == sym:
                return count_seq(alt, k + 1, m, j)
            return 0
        for m in range(i + min_len(sym), j - rest_min + 1):
            c1 = count_sym(sym, i, m)
            if c1:
                c2 = count_seq(alt, k + 1, m, j)
                total += c1 * c2
                if total >= cap:
                    return cap
        return total

    if not can.get(start):
        return 0
    return min(cap, count_sym(start, 0, n))
