"""Per-property check definitions: engine, profile, budgets, coverage summary."""

import json
import os
from typing import Any, Dict, List

from sim import driver

ASSUME_SOLVERSIM = [
    "Z3's wall-clock timeouts are replaced by a deterministic rlimit budget scaled from the requested timeout; Z3 parallel mode is forced off",
    "time as seen by isla.solver is a work-based virtual clock; randomness as seen by isla.* is a seeded PRNG owned by the simulator",
    "Oracle-G/Oracle-S (own grammar model, recogniser and ISLa-semantics evaluator) are correct for the generated fragment; ground SMT atoms are decided by a separate, never fault-injected Z3",
    "sampling, not enumeration: a schedule, fault placement or grammar/constraint shape that was not drawn was not tried",
]


def _solversim_summary(focus: str):
    def summarize(lines: List[Dict[str, Any]]) -> Dict[str, Any]:
        fired: Dict[str, int] = {}
        z3r: Dict[str, int] = {}
        stats: Dict[str, int] = {}
        inconclusive: Dict[str, int] = {}
        digests = set()
        nontrivial_digests = set()
        virtual = 0.0
        phases = {"dry": 0, "faulted": 0}
        outcomes: Dict[str, int] = {}
        samples = []
        events = 0
        mon: Dict[str, int] = {}
        for l in lines:
            r = l["record"]
            phases[r.get("phase", "dry")] = phases.get(r.get("phase", "dry"), 0) + 1
            for k, v in (r.get("fired") or {}).items():
                fired[k] = fired.get(k, 0) + v
            for k, v in (r.get("z3_results") or {}).items():
                z3r[k] = z3r.get(k, 0) + v
            for k, v in (r.get("stats") or {}).items():
                stats[k] = stats.get(k, 0) + v
            for k, v in (r.get("monitor_counts") or {}).items():
                mon[k] = mon.get(k, 0) + v
            for inc in r.get("inconclusive") or []:
                key = ":".join(str(inc).split(":")[:2])
                inconclusive[key] = inconclusive.get(key, 0) + 1
            virtual += r.get("virtual_s", 0.0)
            events += r.get("events", 0)
            d = r.get("digest")
            digests.add(d)
            st = r.get("stats") or {}
            for o in r.get("outcomes") or []:
                if o and o[0] == "solve":
                    outcomes[o[2]] = outcomes.get(o[2], 0) + 1
            nontrivial = False
            if focus == "C01":
                nontrivial = st.get("decided", 0) > 0
            elif focus == "C02":
                nontrivial = st.get("terminal_reprobed", 0) > 0
            elif focus == "C18":
                nontrivial = st.get("api_inputs", 0) > 0
            elif focus == "C12":
                nontrivial = (r.get("monitor_counts") or {}).get("c12_expand_tree", 0) > 0
            elif focus == "C14":
                nontrivial = any(k.startswith("c14_") for k in (r.get("monitor_counts") or {}))
            if nontrivial:
                nontrivial_digests.add(d)
            if len(samples) < 4 and "plan" in l and nontrivial:
                p = l["plan"]
                samples.append({
                    "run_seed": l.get("run_seed"), "phase": l.get("phase"), "hashseed": l.get("hashseed"),
                    "grammar": p["scenarios"][0]["grammar"], "constraint": p["scenarios"][0]["formula_text"],
                    "settings": p["scenarios"][0]["settings"], "cost": p["scenarios"][0]["cost"],
                    "ops": p["ops"], "faults": p["faults"], "prng": p["prng"], "clock": p["clock"],
                    "outcomes": (r.get("outcomes") or [])[:12],
                })
        if not samples:
            for l in lines[:2]:
                if "plan" in l:
                    samples.append({"run_seed": l.get("run_seed"), "ops": l["plan"].get("ops"), "outcomes": (l["record"].get("outcomes") or [])[:12]})
        rule = {
            "C01": "one evaluation = one simulated run (1-3 ISLaSolver objects, 3-14 interleaved solve()/clock ops under seeded PRNG strategy, cost-order strategy, virtual clock, Z3 seam; about two thirds of run seeds are re-executed with 1-3 faults placed at seam indices observed in the fault-free execution). Non-trivial = at least one returned tree was decided by Oracle-G+Oracle-S; distinct = distinct SHA-256 digest over the full seam event log and outcomes.",
            "C02": "one evaluation = one simulated run as for C01 (every solver is called again after its terminal exception, with clock steps and heals in between). Non-trivial = at least one solve() was issued after a terminal StopIteration/TimeoutError (sticky clause exercised); distinct = distinct seam event digest.",
            "C18": "one evaluation = one simulated run with check/parse/repair/mutate operations interleaved with solve(); non-trivial = at least one API input (valid, syntactically or semantically invalid) was judged; distinct = distinct seam event digest.",
            "C12": "solver-internal fuzzer.expand_tree calls monitored in simulated solver runs; non-trivial = at least one monitored call; distinct = distinct seam event digest.",
            "C14": "solver-internal build-to-target helpers monitored in simulated solver runs; non-trivial = at least one monitored helper call; distinct = distinct seam event digest.",
        }[focus]
        return {
            "evaluations": len(lines),
            "distinct_nontrivial": len(nontrivial_digests),
            "distinct_executions": len(digests),
            "rule": rule,
            "samples": samples,
            "runs_fault_free": phases.get("dry", 0),
            "runs_faulted": phases.get("faulted", 0),
            "faults_fired": fired,
            "z3_results": z3r,
            "solve_outcomes": outcomes,
            "oracle_stats": stats,
            "monitor_counts": mon,
            "inconclusive": inconclusive,
            "virtual_seconds_simulated": round(virtual, 1),
            "seam_events": events,
            "real_components": ["isla.* (all)", "grammar_graph", "datrie", "returns", "ANTLR parsers", "Z3 decision procedures"],
            "stubbed_components": ["Z3 wall-clock timeout -> rlimit budget", "Z3 parallel.enable -> off", "time module in isla.solver -> virtual clock", "random module in isla.* -> SimRandom", "cost computer wrapped by SimCostComputer"],
        }

    return summarize


def _solversim_check(prop: str, focus: str, profile_extra: Dict[str, Any], quick_runs: int, thorough_runs: int,
                     quick_budget: float, thorough_budget: float):
    def run(tier, runs, budget, nproc):
        profile = dict(profile_extra)
        profile["focus"] = focus
        n = runs or (thorough_runs if tier == "thorough" else quick_runs)
        b = budget or (thorough_budget if tier == "thorough" else quick_budget)
        return driver.run_check(
            prop, tier, "solversim", profile, n, b, wall=240.0, nproc_total=nproc,
            level_text={"category": "exploration", "assumptions": ASSUME_SOLVERSIM},
            summarize=_solversim_summary(focus),
        )

    return run


CHECKS = {
    "C01": _solversim_check("C01", "C01", {"derive_prob": 0.12, "derive_grammar_prob": 0.4}, 240, 12000, 100, 1800),
    "C02": _solversim_check("C02", "C02", {"unsat_prob": 0.45, "clock_op_prob": 0.22, "fault_bias": {"fault_free_prob": 0.2, "z3_slow": 5, "clk_jump_fwd": 3}, "derive_prob": 0.12, "derive_grammar_prob": 0.4}, 240, 12000, 100, 1800),
    "C18": _solversim_check("C18", "C18", {"api_ops": True, "families": ["ambig", "ambig", "signed", "csv", "config", "nullable", "nullable", "nullable"], "families_prob": 0.55}, 200, 8000, 110, 1800),
}


def replay(prop: str, path: str) -> int:
    with open(path) as f:
        data = json.load(f)
    engine = data["engine"]
    plan = dict(data["plan"], no_followup=True)
    res = driver.run_plans(engine, [plan], data.get("hashseed"), wall=180.0, nproc=1)
    if not res or "lost" in res[0].get("record", {}):
        print(f"HARNESS-ERROR: replay did not complete: {res[0].get('record') if res else None}")
        return 2
    key = driver.violation_key(data["violation"])
    v = driver.same_violation(res[0]["record"], key)
    if v is None:
        print(f"REPLAY-DIVERGED: violation {key} not reproduced; violations now: {[driver.violation_key(x) for x in res[0]['record'].get('violations', [])]}")
        return 2
    print(f"VIOLATION property={data['property']} replay={path}")
    print(f"  clause={v.get('clause')} detail={str(v.get('detail'))[:400]}")
    print(f"  digest={res[0]['record'].get('digest')}")
    return 1


# ------------------------------------------------------------------------- treesim (C16, C17)

ASSUME_TREESIM = [
    "the reference model (oracles/treemodel.py) is correct; trees are compared through the public attributes value/children/id only",
    "histories are generated by Hypothesis (seeded, database off) from a fixed small grammar incl. one alternative with 32 symbols; sampling, not enumeration",
]


def _treesim_summary(focus: str):
    def summarize(lines):
        hist = sum(l["record"].get("histories", 0) for l in lines)
        ops = sum(l["record"].get("ops_total", 0) for l in lines)
        distinct = sum(l["record"].get("distinct_histories", 0) for l in lines)
        counters: Dict[str, int] = {}
        samples = []
        for l in lines:
            for k, v in (l["record"].get("counters") or {}).items():
                counters[k] = counters.get(k, 0) + v
            for s in l["record"].get("sample_histories") or []:
                if len(samples) < 3:
                    samples.append({"run_seed": l.get("run_seed"), "ops": s})
        return {
            "evaluations": hist,
            "distinct_nontrivial": distinct,
            "rule": "one evaluation = one generated operation history (up to 30 steps after 2 initial ones) on a pool of DerivationTree objects checked against the reference model after every step; histories interleave constructing operations (replace_path, substitute, expand_one_step, parse-tree conversion, new_ids, wide nodes with 27-120 children and the widths 728-758 around the second key-encoding boundary of the trie), cache-touching observers and"
                    + (" serialisations (pickle, to_json/from_json, deepcopy, CLI JSON) plus SMTFormula pickling with adversarial string literals." if focus != "C16" else " no serialisation.")
                    + " At the end of the last history of every run seed the pool is pickled / JSON-encoded and decoded and judged in a fresh interpreter with another PYTHONHASHSEED (process restart: only durable state survives)."
                    + " Non-trivial = history with more than 2 operations; distinct = distinct recorded op lists per seed (summed over seeds).",
            "samples": samples or [{"note": "no sample recorded"}],
            "operations_total": ops,
            "operation_counters": counters,
            "hypothesis_seeds": len(lines),
            "real_components": ["isla.derivation_tree", "isla.trie", "datrie", "isla.language.SMTFormula", "isla.cli.derivation_tree_to_json", "grammar_graph (k-paths)", "z3 term construction/parsing"],
            "stubbed_components": [],
            "faults_fired": {"cache_touch": sum(v for k, v in counters.items() if k.startswith("touch_")), "serialisation_between_ops": sum(v for k, v in counters.items() if k.startswith("serial_")),
                             "process_restart_other_hash_seed": counters.get("restarts", 0), "trees_decoded_after_restart": counters.get("restart_trees_decoded", 0)},
        }

    return summarize


def _treesim_check(prop: str, focus: str, quick_seeds: int, thorough_seeds: int, quick_budget: float, thorough_budget: float):
    def run(tier, runs, budget, nproc):
        thorough = tier == "thorough"
        profile = {"focus": focus, "examples": 150 if thorough else 40, "steps": 30}
        n = runs or (thorough_seeds if thorough else quick_seeds)
        b = budget or (thorough_budget if thorough else quick_budget)
        return driver.run_check(
            prop, tier, "treesim", profile, n, b, wall=300.0, nproc_total=nproc,
            level_text={"category": "exploration", "assumptions": ASSUME_TREESIM},
            summarize=_treesim_summary(focus),
        )

    return run


CHECKS["C16"] = _treesim_check("C16", "C16", 96, 4000, 90, 1800)
CHECKS["C17"] = _treesim_check("C17", "C17", 96, 4000, 90, 1800)


# ------------------------------------------------------------------------- choicesim (+ solver monitors) (C12, C14)

ASSUME_CHOICE = [
    "randomness as seen by isla.* is a seeded PRNG owned by the simulator, driven by uniform and adversarial strategies (always_first, always_last, alternate, low/high biased)",
    "Oracle-G (own grammar model) is correct; input trees come from the harness's own random derivations, pruned back to open leaves with ids kept",
    "sampling, not enumeration",
]


def _choice_summary(focus: str):
    solver_part = _solversim_summary(focus)

    def summarize(lines):
        ch = [l for l in lines if l.get("engine") == "choicesim"]
        sv = [l for l in lines if l.get("engine") == "solversim"]
        counters: Dict[str, int] = {}
        strategies: Dict[str, int] = {}
        cases = 0
        draws = 0
        digests = set()
        inconclusive: Dict[str, int] = {}
        samples = []
        for l in ch:
            r = l["record"]
            cases += r.get("cases", 0)
            draws += r.get("prng_draws", 0)
            for k, v in (r.get("counters") or {}).items():
                counters[k] = counters.get(k, 0) + v
            for k, v in (r.get("strategies") or {}).items():
                strategies[k] = strategies.get(k, 0) + v
            for inc in r.get("inconclusive") or []:
                inconclusive[inc] = inconclusive.get(inc, 0) + 1
            if r.get("cases", 0):
                digests.add(r.get("digest"))
            if len(samples) < 3 and "plan" in l:
                samples.append({"run_seed": l.get("run_seed"), "grammar": l["plan"]["grammar"], "cases": l["plan"]["ops"][:6]})
        s = solver_part(sv) if sv else {}
        judged = {
            "C12": counters.get("expand_plain", 0) + counters.get("expand_cov", 0) + counters.get("mutate", 0),
            "C14": counters.get("fixed_length_built", 0) + counters.get("count_completion", 0),
        }[focus]
        return {
            "evaluations": cases + len(sv),
            "distinct_nontrivial": len(digests) + s.get("distinct_nontrivial", 0),
            "rule": ("one evaluation = one helper call driven directly (choicesim: fuzzer expand_tree on pruned open trees / Mutator.mutate on closed trees / create_fixed_length_tree / count completion, each under its own PRNG strategy and seed) or one simulated solver run whose internal helper calls are checked by seam monitors (solversim). "
                     "distinct_nontrivial = distinct choicesim runs (digest over all PRNG draw logs of the run's cases, runs with at least one judged case) + distinct solver runs with at least one monitored call."),
            "samples": samples or s.get("samples") or [{"note": "none"}],
            "helper_calls_judged_directly": judged,
            "choicesim_counters": counters,
            "prng_strategies_used": strategies,
            "prng_draws": draws,
            "choicesim_inconclusive": inconclusive,
            "solver_monitor_counts": s.get("monitor_counts", {}),
            "solver_runs": len(sv),
            "solver_faults_fired": s.get("faults_fired", {}),
            "faults_fired": dict({"prng_strategy_" + k: v for k, v in strategies.items()}, **s.get("faults_fired", {})),
            "real_components": ["isla.fuzzer", "isla.mutator", "isla.solver.create_fixed_length_tree", "isla.isla_predicates.count", "isla.existential_helpers.insert_tree", "ISLaSolver (monitor stage)"],
            "stubbed_components": ["random module in isla.* -> SimRandom"] + s.get("stubbed_components", []),
        }

    return summarize


def _choice_check(prop: str, quick, thorough):
    def run(tier, runs, budget, nproc):
        q = thorough if tier == "thorough" else quick
        n_choice, b_choice, n_solver, b_solver, cases = q
        if runs:
            n_choice, n_solver = runs, max(8, runs // 4)
        if budget:
            b_choice, b_solver = budget * 0.5, budget * 0.5
        stages = [
            ("choicesim", {"focus": prop, "cases": cases}, n_choice, b_choice),
            ("solversim", dict({"focus": prop, "derive_prob": 0.3, "derive_grammar_prob": 0.6},
                               **({"families": ["signed", "signed", "config", "lenprefix", "expr", "csv"], "families_prob": 0.6} if prop == "C14" else {})),
             n_solver, b_solver),
        ]
        return driver.run_check(
            prop, tier, stages, None, 0, 0, wall=240.0, nproc_total=nproc,
            level_text={"category": "exploration", "assumptions": ASSUME_CHOICE + ASSUME_SOLVERSIM[:2]},
            summarize=_choice_summary(prop),
        )

    return run


CHECKS["C12"] = _choice_check("C12", (160, 50, 120, 50, 24), (6000, 900, 4000, 900, 40))
CHECKS["C14"] = _choice_check("C14", (160, 50, 120, 50, 24), (6000, 900, 4000, 900, 40))


# ------------------------------------------------------------------------- clisim (C19)

ASSUME_CLI = [
    "the process boundary of the CLI is stubbed: isla.cli.main(*argv, stdout=, stderr=) runs in-process in a per-run sandbox directory (own cwd and HOME); a deterministic sample (about one in nine) of the read-only commands (check, find) of fault-free sessions is also executed as a real `python -m isla` process in the same directory and compared (exit status, stdout); agreement counts are reported under process_boundary_stub_validation, for information only",
    "positional FILES are passed after all options (argparse does not accept interleaved positionals); .islarc is absent",
    "exit codes are judged against Oracle-G/Oracle-S on the bytes actually on disk; for an input file ending in a newline both readings (with / without that newline) are accepted",
    "under an injected Z3 fault a rejecting exit code (1) is accepted; a traceback or an accepting exit code for an invalid input never is",
]


def _cli_summary(lines):
    s = _solversim_summary("C19x") if False else None
    fired: Dict[str, int] = {}
    stats: Dict[str, int] = {}
    inconclusive: Dict[str, int] = {}
    digests = set()
    nontrivial = set()
    phases: Dict[str, int] = {}
    samples = []
    stub_dis: List[Dict[str, Any]] = []
    virtual = 0.0
    for l in lines:
        r = l["record"]
        phases[r.get("phase", "dry")] = phases.get(r.get("phase", "dry"), 0) + 1
        for k, v in (r.get("fired") or {}).items():
            fired[k] = fired.get(k, 0) + v
        for k, v in (r.get("stats") or {}).items():
            stats[k] = stats.get(k, 0) + v
        for inc in r.get("inconclusive") or []:
            key = ":".join(str(inc).split(":")[:2])
            inconclusive[key] = inconclusive.get(key, 0) + 1
        virtual += r.get("virtual_s", 0.0)
        digests.add(r.get("digest"))
        for dis in r.get("stub_disagreements") or []:
            if len(stub_dis) < 5:
                stub_dis.append(dict(dis, run_seed=l.get("run_seed")))
        if (r.get("stats") or {}).get("commands", 0) >= 2:
            nontrivial.add(r.get("digest"))
        if len(samples) < 3 and "plan" in l:
            p = l["plan"]
            samples.append({"run_seed": l.get("run_seed"), "phase": l.get("phase"), "grammar": p["grammar"], "constraints": p["formula_texts"],
                            "grammar_format": p["grammar_format"], "constraint_formats": p["constraint_formats"], "script": [o[0] for o in p["ops"]],
                            "faults": p["faults"], "outcomes": (r.get("outcomes") or [])[:10]})
    return {
        "evaluations": len(lines),
        "distinct_nontrivial": len(nontrivial),
        "rule": "one evaluation = one simulated CLI session: a sandbox directory with grammar (.bnf / .py / -g) and 1-2 constraints (.isla files and/or -c), a script of 2-6 commands (solve with -n/-d/--tree/-f/-s/-t/-k/-w/--unique-trees/--unsat-support, check, find, parse [-o], repair, mutate, usage errors, specs malformed by construction) executed in-process under the clock/PRNG/Z3 seams; three quarters of the seeds are re-executed with storage faults (empty / torn / lost / directory / garbage bytes / NUL / BOM / CRLF / extra newlines / duplicate input) placed between writing a file and the command that reads it, or Z3/clock faults inside commands. Non-trivial = at least two commands completed; distinct = distinct digest over seam events and command outcomes.",
        "samples": samples or [{"note": "none"}],
        "process_boundary_stub_validation": {"commands_also_run_as_real_process": stats.get("stub_validation_agree", 0) + stats.get("stub_validation_disagree", 0),
                                             "agree": stats.get("stub_validation_agree", 0), "disagree": stats.get("stub_validation_disagree", 0),
                                             "real_process_lost": stats.get("stub_validation_subprocess_lost", 0), "disagreements": stub_dis},
        "commands_executed": stats.get("commands", 0),
        "runs_fault_free": phases.get("dry", 0),
        "runs_faulted": phases.get("faulted", 0),
        "faults_fired": fired,
        "oracle_stats": stats,
        "inconclusive": inconclusive,
        "virtual_seconds_simulated": round(virtual, 1),
        "real_components": ["isla.cli (argument parsing, file handling, exit codes)", "ISLaSolver", "file system (real files in a sandbox directory)"],
        "stubbed_components": ["process boundary (in-process main)", "Z3 wall-clock timeout -> rlimit", "time in isla.solver", "random in isla.*"],
    }


def _cli_check(tier, runs, budget, nproc):
    thorough = tier == "thorough"
    n = runs or (8000 if thorough else 220)
    b = budget or (1800 if thorough else 110)
    return driver.run_check(
        "C19", tier, "clisim", {}, n, b, wall=240.0, nproc_total=nproc,
        level_text={"category": "exploration", "assumptions": ASSUME_CLI},
        summarize=_cli_summary,
    )


CHECKS["C19"] = _cli_check


# ------------------------------------------------------------------------- reprosim (C22)

ASSUME_REPRO = [
    "children are fresh interpreters with the same PYTHONHASHSEED and the same random.seed(); address-space randomisation is switched off (setarch -R) and heap layout is perturbed by seeded ballast instead, so that a mismatch is itself reproducible",
    "Z3's wall-clock timeouts are replaced by the same deterministic rlimit budget in every child (otherwise machine load would make the unchanged tree fail at random - an honest limit of the property); the same optional Z3 unknown schedule applies to all children",
    "solver timeouts are off and the clock seen by isla.solver stands still at a perturbed epoch; runs cut by the deterministic work cap are compared on their common prefix",
]


def _repro_summary(lines):
    digests = set()
    nontrivial = set()
    children = 0
    solutions = 0
    ends: Dict[str, int] = {}
    inconclusive: Dict[str, int] = {}
    perts: Dict[str, int] = {}
    z3f: Dict[str, int] = {}
    samples = []
    for l in lines:
        r = l["record"]
        digests.add(r.get("digest"))
        for e in r.get("ends") or []:
            ends[str(e)[:30]] = ends.get(str(e)[:30], 0) + 1
            children += 1
        for inc in r.get("inconclusive") or []:
            inconclusive[str(inc)[:40]] = inconclusive.get(str(inc)[:40], 0) + 1
        for k, v in (r.get("z3_fired") or {}).items():
            z3f[k] = z3f.get(k, 0) + v
        solutions += r.get("solutions", 0)
        if r.get("solutions", 0) >= 2 and not r.get("inconclusive"):
            nontrivial.add(r.get("digest"))
        if "plan" in l:
            for p in l["plan"]["ops"][1:]:
                for k in ("heap_objects", "gc", "import_order", "cwd", "env", "argv", "clock_rate", "stalls"):
                    if p.get(k) not in (0, 0.0, "default", [], None, {}):
                        perts["perturb_" + k] = perts.get("perturb_" + k, 0) + 1
            if len(samples) < 3 and r.get("solutions", 0) >= 2:
                sc = l["plan"]["scenario"]
                samples.append({"run_seed": l.get("run_seed"), "hashseed": l.get("hashseed"), "scenario": sc.get("formalization") or sc["formula_text"][:200],
                                "k": l["plan"]["k"], "perturbations": l["plan"]["ops"], "z3_faults": l["plan"]["faults"], "first_solutions": r.get("sample")})
    return {
        "evaluations": len(lines),
        "distinct_nontrivial": len(nontrivial),
        "rule": "one evaluation = one scenario (generated grammar + constraint + solver settings, or a shipped formalization) solved k in {5,10,20,30} times by 2-3 fresh interpreters with identical hash seed and random seed under different perturbation schedules (heap ballast, GC mode, import order, epoch, clock speed and stalls between solve() calls - no timeout is configured -, cwd/HOME/COLUMNS/argv); verdict = all children print the same sequence (strings and tree shapes). Non-trivial = at least two solutions compared and no child lost; distinct = distinct digest of the reference child's solution sequence.",
        "samples": samples or [{"note": "none"}],
        "fresh_interpreters_started": children,
        "solutions_compared": solutions,
        "child_end_states": ends,
        "inconclusive": inconclusive,
        "faults_fired": dict(perts, **{"shared_" + k: v for k, v in z3f.items()}),
        "real_components": ["isla.* in fresh interpreters", "the genuine random module (seeded by random.seed)", "Z3 decision procedures", "CPython allocator / GC"],
        "stubbed_components": ["Z3 wall-clock timeout -> rlimit budget", "kernel ASLR -> off + seeded heap ballast", "time in isla.solver -> virtual clock (child 0: standing still; others: work-based rate and stalls)"],
    }


def _repro_check(tier, runs, budget, nproc):
    thorough = tier == "thorough"
    n = runs or (3000 if thorough else 72)
    b = budget or (1800 if thorough else 120)
    return driver.run_check(
        "C22", tier, "reprosim", {}, n, b, wall=600.0, nproc_total=nproc,
        level_text={"category": "exploration", "assumptions": ASSUME_REPRO},
        summarize=_repro_summary,
    )


CHECKS["C22"] = _repro_check


# ------------------------------------------------------------------------- formsim (C21)

ASSUME_FORM = [
    "domain validators (oracles/domains.py: own CSV field splitting, expat + own namespace/attribute rules, docutils system messages + own underline/link/numbering rules, own TAR checksum/field layout) are correct and demand exactly what the shipped constraints formalize",
    "solver exceptions in these runs are C02's business and are counted as inconclusive here",
] + ASSUME_SOLVERSIM[:2]


def _form_summary(lines):
    fired: Dict[str, int] = {}
    per_form: Dict[str, Dict[str, int]] = {}
    inconclusive: Dict[str, int] = {}
    digests = set()
    nontrivial = set()
    samples = []
    virtual = 0.0
    phases: Dict[str, int] = {}
    for l in lines:
        r = l["record"]
        phases[r.get("phase", "dry")] = phases.get(r.get("phase", "dry"), 0) + 1
        f = f"{r.get('formalization')}/{r.get('variant')}"
        d = per_form.setdefault(f, {"runs": 0, "solutions": 0, "validated": 0})
        d["runs"] += 1
        d["solutions"] += (r.get("stats") or {}).get("solutions", 0)
        d["validated"] += (r.get("stats") or {}).get("validated", 0)
        for k, v in (r.get("fired") or {}).items():
            fired[k] = fired.get(k, 0) + v
        for inc in r.get("inconclusive") or []:
            key = ":".join(str(inc).split(":")[:3])
            inconclusive[key] = inconclusive.get(key, 0) + 1
        virtual += r.get("virtual_s", 0.0)
        digests.add(r.get("digest"))
        if (r.get("stats") or {}).get("validated", 0) > 0:
            nontrivial.add(r.get("digest"))
        if len(samples) < 4 and "plan" in l and (r.get("stats") or {}).get("validated", 0) > 0:
            p = l["plan"]
            samples.append({"run_seed": l.get("run_seed"), "phase": l.get("phase"), "formalization": f, "settings": p["settings"], "cost": p["cost"], "prng": p["prng"], "faults": p["faults"], "solutions_validated": r["stats"]["validated"]})
    return {
        "evaluations": len(lines),
        "distinct_nontrivial": len(nontrivial),
        "rule": "one evaluation = one simulated solver run on a shipped formalization (grammar + shipped constraint set or a sub-conjunction), settings centred on the repository's own tests/evaluations with per-run variation of PRNG seed/strategy, cost weights and k, cost-order strategy, fuzzer kind and instantiation limits; half of the seeds are re-executed with Z3/clock faults placed inside the run. Every returned solution is judged by Oracle-G and the independent domain validator. Non-trivial = at least one solution validated; distinct = distinct digest over seam events and outcomes.",
        "samples": samples or [{"note": "none"}],
        "solutions_validated": sum(d["validated"] for d in per_form.values()),
        "per_formalization": per_form,
        "runs_fault_free": phases.get("dry", 0),
        "runs_faulted": phases.get("faulted", 0),
        "faults_fired": fired,
        "inconclusive": inconclusive,
        "virtual_seconds_simulated": round(virtual, 1),
        "real_components": ["isla_formalizations.{csv,xml_lang,rest,simple_tar} grammars, constraints and semantic predicates", "ISLaSolver", "Z3", "docutils / expat as oracles"],
        "stubbed_components": ["Z3 wall-clock timeout -> rlimit budget", "time in isla.solver", "random in isla.*", "cost computer wrapped"],
    }


def _form_check(tier, runs, budget, nproc):
    thorough = tier == "thorough"
    n = runs or (2000 if thorough else 64)
    b = budget or (1800 if thorough else 140)
    return driver.run_check(
        "C21", tier, "formsim", {}, n, b, wall=400.0, nproc_total=nproc,
        level_text={"category": "exploration", "assumptions": ASSUME_FORM},
        summarize=_form_summary,
    )


CHECKS["C21"] = _form_check
