"""reprosim child: a *fresh interpreter* that does exactly what a user does --
random.seed(s); ISLaSolver(...); solve() k times -- after applying one perturbation
schedule of things that must not matter for "same seed, same solutions".

Reads {"scenario":..., "prng_seed":..., "k":..., "perturbation":..., "z3_faults": [...]}
from stdin, prints one JSON document.  The genuine `random` module is used (no PRNG
seam): the module-level seeding path is the thing under test.
"""

import json
import os
import sys


def main():
    job = json.loads(sys.stdin.read())
    pert = job["perturbation"]

    # 1. heap shift: allocate before anything of isla/z3 is imported, keep alive
    ballast = []
    n = int(pert.get("heap_objects", 0))
    sizes = pert.get("heap_sizes", [16, 64, 1024])
    for i in range(n):
        ballast.append(bytearray(sizes[i % len(sizes)]))
        if i % 3 == 0:
            ballast.append([i] * (i % 7))
        if i % 5 == 0:
            ballast.append({"k%d" % i: object()})

    # 2. garbage collector mode
    import gc

    mode = pert.get("gc", "default")
    if mode == "disabled":
        gc.disable()
    elif mode == "aggressive":
        gc.set_threshold(1, 1, 1)
    elif mode == "lazy":
        gc.set_threshold(100000, 100, 100)

    # 3. environment noise
    if pert.get("cwd"):
        os.makedirs(pert["cwd"], exist_ok=True)
        os.chdir(pert["cwd"])
    for k, v in (pert.get("env") or {}).items():
        os.environ[k] = v
    sys.argv = [sys.argv[0]] + list(pert.get("argv", []))

    # 4. import order
    import importlib
    import logging

    logging.disable(logging.CRITICAL)
    for mod in pert.get("import_order", []):
        importlib.import_module(mod)

    sys.path.insert(0, os.path.dirname(os.path.dirname(os.path.abspath(__file__))))
    sys.setrecursionlimit(20000)
    import random

    from sim.seams import ClockFacade, EventLog, SimBudgetExceeded, WorkCounter, Z3Seam

    import isla.solver
    from isla.solver import CostSettings, CostWeightVector, GrammarBasedBlackboxCostComputer, ISLaSolver
    from isla.fuzzer import GrammarCoverageFuzzer, GrammarFuzzer
    from grammar_graph import gg

    if mode == "freeze":
        gc.freeze()

    log = EventLog()
    work = WorkCounter(cap=None)
    # no timeout is configured in these scenarios, so the passage of time must not matter:
    # child 0 sees a clock that stands still at a perturbed epoch, the others a clock that
    # advances with the work done (normal .. very slow machine) and stalls between calls
    clock = ClockFacade(log, work, epoch=float(pert.get("epoch", 1.7e9)), c_call=float(pert.get("clock_rate", 0.0)), c_z3=0.0)
    isla.solver.time = clock
    stalls = pert.get("stalls") or {}
    z3seam = Z3Seam(log, None, faults=job.get("z3_faults") or [])
    z3seam.install()
    work.install()

    sc = job["scenario"]
    st = sc["settings"]
    out = {"solutions": [], "end": "k_reached"}
    try:
        random.seed(job["prng_seed"])
        grammar = sc["grammar"]
        kwargs = dict(
            max_number_free_instantiations=st["max_number_free_instantiations"],
            max_number_smt_instantiations=st["max_number_smt_instantiations"],
            max_number_tree_insertion_results=st["max_number_tree_insertion_results"],
            enforce_unique_trees_in_queue=st["enforce_unique_trees_in_queue"],
            tree_insertion_methods=st["tree_insertion_methods"],
            activate_unsat_support=st["activate_unsat_support"],
            grammar_unwinding_threshold=st["grammar_unwinding_threshold"],
            enable_optimized_z3_queries=st["enable_optimized_z3_queries"],
            global_fuzzer=st["global_fuzzer"],
        )
        if st.get("fuzzer") == "plain":
            kwargs["fuzzer_factory"] = lambda g: GrammarFuzzer(g)
        if sc.get("cost_weights"):
            kwargs["cost_computer"] = GrammarBasedBlackboxCostComputer(
                CostSettings(CostWeightVector(*sc["cost_weights"]), k=sc.get("cost_k", 3)),
                gg.GrammarGraph.from_grammar(grammar),
            )
        if sc.get("formalization"):
            formula = _formalization(sc["formalization"])
            grammar = formula[0]
            solver = ISLaSolver(grammar, formula[1], **kwargs)
        else:
            solver = ISLaSolver(grammar, sc["formula_text"], **kwargs)
        for i in range(job["k"]):
            work.extend(int(job.get("op_work", 2_000_000)))
            if str(i) in stalls:
                clock.advance(float(stalls[str(i)]))
            try:
                tree = solver.solve()
            except StopIteration:
                out["end"] = "stop"
                break
            except TimeoutError:
                out["end"] = "timeout"
                break
            if work.tripped:
                out["end"] = "budget"
                break
            out["solutions"].append([str(tree), json.dumps(tree.to_parse_tree())])
    except SimBudgetExceeded:
        out["end"] = "budget"
    except BaseException as exc:
        if work.tripped:
            out["end"] = "budget"
        else:
            out["end"] = "exception:" + type(exc).__name__ + ":" + str(exc)[:200]
    finally:
        work.uninstall()
    out["z3_calls"] = z3seam.calls
    out["z3_results"] = z3seam.results
    out["z3_fired"] = z3seam.fired
    out["work"] = work.count
    out["ballast"] = len(ballast)
    sys.stdout.write(json.dumps(out))
    sys.stdout.flush()
    os._exit(0)


def _formalization(name):
    if name == "csv":
        from isla_formalizations import csv as m

        return m.CSV_GRAMMAR, m.CSV_COLNO_PROPERTY
    if name == "xml":
        from isla_formalizations import xml_lang as m

        return m.XML_GRAMMAR_WITH_NAMESPACE_PREFIXES, m.XML_WELLFORMEDNESS_CONSTRAINT & m.XML_NAMESPACE_CONSTRAINT & m.XML_NO_ATTR_REDEF_CONSTRAINT
    if name == "rest":
        from isla_formalizations import rest as m

        return m.REST_GRAMMAR, m.LENGTH_UNDERLINE & m.DEF_LINK_TARGETS & m.NO_LINK_TARGET_REDEF & m.LIST_NUMBERING_CONSECUTIVE
    raise ValueError(name)


if __name__ == "__main__":
    main()
