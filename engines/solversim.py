"""solversim: ISLaSolver objects under the simulated world (clock, PRNG, Z3, scheduler).

Serves C01 (every solution valid + satisfies the constraint), C02 (only solutions /
StopIteration / TimeoutError, then sticky), C18 (check / parse / repair / mutate agree),
and hosts the seam monitors for C12 / C14.

plan   = pure function of (run_seed, profile)          -> make_plan
record = execute(plan) in a forked child               -> execute
faulted plan = place_faults(plan, dry record, run_seed) -> followup
"""

import copy
import hashlib
import random
from typing import Any, Dict, List, Optional, Tuple

from gen.formulas import features_with_grammar
from gen.grammars import grammar_features
from gen.formulas import gen_formula, uses
from gen.grammars import make_grammar
from oracles.grammar import (
    MNode,
    Recognizer,
    count_parses,
    is_closed,
    to_model,
    tree_yield,
    validate_tree,
)
from oracles.semantics import Abstain, print_formula, satisfies
from sim.seams import PRNG_STRATEGIES, SCHED_STRATEGIES, SimBudgetExceeded, SimCostComputer
from sim.world import Quiet, World, exception_signature

ENGINE = "solversim"

# ------------------------------------------------------------------------- planning


def gen_settings(rng: random.Random, profile: Optional[Dict[str, Any]] = None) -> Dict[str, Any]:
    profile = profile or {}
    small = lambda hi: rng.choice([1, 1, 2, 2, 3, 4, hi])
    s: Dict[str, Any] = {
        "max_number_free_instantiations": small(10),
        "max_number_smt_instantiations": small(10),
        "max_number_tree_insertion_results": rng.randint(1, 5),
        "enforce_unique_trees_in_queue": rng.random() < 0.3,
        "tree_insertion_methods": None if rng.random() < 0.6 else rng.randint(0, 7),
        "activate_unsat_support": rng.random() < profile.get("unsat_prob", 0.2),
        "grammar_unwinding_threshold": 4 if rng.random() < 0.6 else rng.randint(1, 5),
        "enable_optimized_z3_queries": rng.random() < 0.5,
        "global_fuzzer": rng.random() < 0.2,
        "fuzzer": rng.choice(["coverage", "coverage", "plain"]),
        "timeout_seconds": rng.choice([None, None, None, 1, 1, 3, 3, 10, 10, 60, 60, 0]),
    }
    if s["activate_unsat_support"] and rng.random() < 0.7:
        s["tree_insertion_methods"] = None
    return s


def gen_cost(rng: random.Random) -> Dict[str, Any]:
    if rng.random() < 0.4:
        weights = [6.5, 1, 4, 2, 19]
    else:
        weights = [rng.choice([0, 0.5, 1, 2, 5, 10, 20]) for _ in range(5)]
    return {
        "strategy": rng.choice(["real", "real", "noisy", "random", "constant", "lifo", "fifo"]),
        "seed": rng.randrange(1 << 30),
        "weights": weights,
        "k": rng.choice([3, 3, 1, 2, 4]),
    }


def make_plan(run_seed: int, profile: Dict[str, Any]) -> Dict[str, Any]:
    rng = random.Random(run_seed)
    if profile.get("families") and rng.random() < profile.get("families_prob", 0.4):
        profile = dict(profile, family=rng.choice(profile["families"]))
    family, grammar = make_grammar(rng, profile.get("family"))
    n_solvers = rng.choice([1, 1, 1, 2, 2, 3])
    share_scenario = rng.random() < 0.5
    scenarios = []
    for i in range(n_solvers):
        if i > 0 and not share_scenario:
            family_i, grammar_i = make_grammar(rng, profile.get("family"))
        else:
            family_i, grammar_i = family, grammar
        formula = gen_formula(grammar_i, rng, family_i)
        scenarios.append(
            {
                "family": family_i,
                "grammar": grammar_i,
                "formula": formula,
                "formula_text": print_formula(formula),
                "settings": gen_settings(rng, profile),
                "cost": gen_cost(rng),
            }
        )
    ops: List[List[Any]] = []
    n_ops = rng.randint(3, profile.get("max_ops", 12))
    p_clock = profile.get("clock_op_prob", 0.08)
    for _ in range(n_ops):
        r = rng.random()
        if r < 0.92 - p_clock:
            ops.append(["solve", rng.randrange(n_solvers)])
        elif r < 0.92:
            ops.append(["clock", rng.choice([0.5, 2.0, 2.5, 3.0, 11.0, 100.0, -5.0, -100.0, 1e6])])
        else:
            ops.append(["heal"])
    # late calls: make sure every solver is called at least 2 more times at the end
    for i in range(n_solvers):
        for _ in range(rng.randint(1, 2)):
            ops.append(["solve", i])
    if profile.get("api_ops"):
        ops = add_api_ops(ops, n_solvers, rng)
    plan = {
        "engine": ENGINE,
        "run_seed": run_seed,
        "phase": "dry",
        "scenarios": scenarios,
        "prng": {"strategy": rng.choice(["uniform"] * 6 + ["low_biased", "high_biased", "low_biased", "high_biased", "alternate", "always_first", "always_last"]), "seed": rng.randrange(1 << 30)},
        "clock": {
            "epoch": rng.choice([1_700_000_000.25, 0.0, 2_147_483_647.5, 4_102_444_800.9, 12.75]),
            "c_call": rng.choice([1.1e-6, 1.1e-6, 1.1e-5, 1.1e-4, 1.1e-7]),
            "mono_origin": rng.choice([1000.0, 1000.0, 1000.0, 0.0, 0.25, 86400.5, 4.0e9]),
        },
        "ops": ops,
        "faults": [],
        "fault_bias": profile.get("fault_bias", {}),
        "caps": {"op_work": profile.get("op_work", 1_500_000), "total_work": profile.get("total_work", 12_000_000)},
    }
    api = bool(profile.get("api_ops"))
    if rng.random() < profile.get("derive_prob", 0.4 if api else 0.0):
        add_derived_solver(plan, rng, api, profile.get("derive_grammar_prob", 0.3))
    if not api and rng.random() < profile.get("start_symbol_prob", 0.12):
        use_start_symbol(plan, rng)
    return plan


def add_derived_solver(plan: Dict[str, Any], rng: random.Random, api: bool, grammar_prob: float) -> None:
    """A further solver object obtained from an existing one by the public
    `copy_without_queue(formula=..., [grammar=...])`: same settings, another constraint
    and, sometimes, another grammar of the same family (same nonterminal names, other
    expansions).  The family shares whatever state ISLa lets copies share.  With the
    same grammar, inputs accepted by one member are afterwards presented to the other
    (both directions)."""
    scenarios = plan["scenarios"]
    src = rng.randrange(len(scenarios))
    base = scenarios[src]
    if base.get("start_symbol"):
        return
    grammar = base["grammar"]
    other_grammar = False
    if rng.random() < grammar_prob:
        fam2, g2 = make_grammar(rng, base["family"])
        if fam2 == base["family"] and g2 != grammar:
            grammar, other_grammar = g2, True
    formula = gen_formula(grammar, rng, base["family"])
    new_idx = len(scenarios)
    scenarios.append(dict(base, grammar=grammar, formula=formula, formula_text=print_formula(formula), derived_from=src,
                          derived_grammar=other_grammar))
    ops = plan["ops"]
    first = next((k for k, op in enumerate(ops) if op[0] == "solve" and op[1] == src), len(ops) - 1)
    at = rng.randint(first + 1, len(ops))
    tail = [["derive", new_idx, src]]
    kinds = ["check", "check", "parse", "parse", "check_mut", "parse_mut", "solve", "repair"] if api else ["solve"]
    for _ in range(rng.randint(3, 7)):
        who = rng.choice([src, new_idx, new_idx])
        kind = rng.choice(kinds)
        tail.append([kind, who] if kind == "solve" else [kind, who, rng.randrange(1 << 30)])
    plan["ops"] = ops[:at] + tail + ops[at:]


def use_start_symbol(plan: Dict[str, Any], rng: random.Random) -> None:
    """C01 'or the requested start symbol': one solver of the run gets the *whole*
    grammar plus `start_symbol=<x>`; the constraint is generated (and judged) over the
    sub-grammar reachable from <x>, and returned trees must be rooted at <x>."""
    from gen.grammars import prune

    sources = {s.get("derived_from") for s in plan["scenarios"]}
    plain = [s for i, s in enumerate(plan["scenarios"]) if s.get("derived_from") is None and i not in sources]
    if not plain:
        return
    sc = rng.choice(plain)
    g = sc["grammar"]
    cands = sorted(nt for nt in g if nt != "<start>")
    if not cands:
        return
    nt = rng.choice(cands)
    g2 = prune(dict(g, **{"<start>": [nt]}))
    if not g2 or len(g2) < 3:
        return
    formula = gen_formula(g2, rng, None)
    text = print_formula(formula)
    if "<start>" in text:
        return
    sc.update(formula=formula, formula_text=text, start_symbol=nt, oracle_grammar=g2, settings=dict(sc["settings"], start_symbol=nt))


def add_api_ops(ops, n_solvers, rng):
    out = []
    for op in ops:
        out.append(op)
        if op[0] == "solve" and rng.random() < 0.6:
            kind = rng.choice(["check", "check", "parse", "repair", "mutate", "check_mut", "parse_mut", "repair_mut", "check_tree", "check_tree"])
            out.append([kind, op[1], rng.randrange(1 << 30)])
    # words of the language derived by the harness itself (members by construction):
    # the parser must accept them, check/parse must agree with the semantics
    for _ in range(rng.randint(2, 7)):
        out.append([rng.choice(["check_word", "parse_word", "parse_word"]), rng.randrange(n_solvers), rng.randrange(1 << 30)])
    return out


def place_faults(plan: Dict[str, Any], record: Dict[str, Any]) -> Optional[Dict[str, Any]]:
    """Second phase: the same plan with 1-3 faults placed at seam indices observed in
    the fault-free execution (so that faults land inside operations)."""
    rng = random.Random(plan["run_seed"] * 7919 + 13)
    bias = plan.get("fault_bias") or {}
    if rng.random() < bias.get("fault_free_prob", 0.35):
        return None  # this run seed stays fault-free
    counts = record.get("seam_counts", {})
    z3n = counts.get("z3_calls", 0)
    clk = counts.get("clock_reads", 0)
    kinds = []
    sites = {k: v for k, v in (record.get("z3_sites") or {}).items() if v > 0}
    if z3n:
        kinds += ["z3_outage", "z3_outage", "z3_starved", "z3_unknown", "z3_slow", "z3_slow"]
        if sites:
            kinds += ["z3_site_outage", "z3_site_outage"]
    if clk:
        kinds += ["clk_jump_fwd", "clk_jump_fwd", "clk_jump_back", "clk_slow_window"]
    for k, w in sorted(bias.items()):
        if k in kinds:
            kinds += [k] * int(w)
    if not kinds:
        return None
    faults = []
    timeouts = [s["settings"]["timeout_seconds"] or 2 for s in plan["scenarios"]]
    for _ in range(rng.choice([1, 1, 2, 3])):
        k = rng.choice(kinds)
        if k == "z3_site_outage":
            site = rng.choice(sorted(sites))
            faults.append({"kind": k, "site": site, "at_site_call": rng.randrange(sites[site]), "len": rng.choice([21, 40, 200, 100000])})
        elif k == "z3_outage":
            faults.append({"kind": k, "at_call": rng.randrange(z3n), "len": rng.choice([21, 25, 40, 80, 400])})
        elif k == "z3_starved":
            faults.append({"kind": k, "at_call": rng.randrange(z3n), "len": rng.choice([1, 5, 25, 100])})
        elif k == "z3_unknown":
            faults.append({"kind": k, "at_call": rng.randrange(z3n)})
        elif k == "z3_slow":
            faults.append({"kind": k, "at_call": rng.randrange(z3n), "delta": rng.choice([rng.choice(timeouts) + 1, rng.choice(timeouts) + 1, 2.5, 100.0, 1e6])})
        elif k == "clk_jump_fwd":
            faults.append({"kind": k, "at_read": rng.randrange(clk + 1), "delta": rng.choice([rng.choice(timeouts) + 1, 2.5, 100.0, 1e7])})
        elif k == "clk_jump_back":
            faults.append({"kind": k, "at_read": rng.randrange(clk + 1), "delta": rng.choice([5.0, 100.0, 1e5])})
        else:
            faults.append({"kind": k, "at_read": rng.randrange(clk + 1), "len": rng.randint(1, 10), "factor": rng.choice([10.0, 100.0, 1000.0, 1e5])})
    new = copy.deepcopy(plan)
    new["phase"] = "faulted"
    new["faults"] = faults
    return new


# ------------------------------------------------------------------------- execution


def build_solver(world: World, sc: Dict[str, Any], monitors: "Monitors"):
    from grammar_graph import gg
    from isla.fuzzer import GrammarCoverageFuzzer, GrammarFuzzer
    from isla.solver import (
        CostSettings,
        CostWeightVector,
        GrammarBasedBlackboxCostComputer,
        ISLaSolver,
    )

    st = sc["settings"]
    grammar = sc["grammar"]
    graph = gg.GrammarGraph.from_grammar(grammar)
    w = sc["cost"]["weights"]
    real_cc = GrammarBasedBlackboxCostComputer(
        CostSettings(CostWeightVector(*w), k=sc["cost"]["k"]), graph
    )
    cc = SimCostComputer(real_cc, sc["cost"]["strategy"], sc["cost"]["seed"], world.log)
    fuzzer_cls = GrammarCoverageFuzzer if st["fuzzer"] == "coverage" else GrammarFuzzer

    def fuzzer_factory(g):
        return monitors.wrap_fuzzer(fuzzer_cls(g), g)

    kwargs = dict(
        max_number_free_instantiations=st["max_number_free_instantiations"],
        max_number_smt_instantiations=st["max_number_smt_instantiations"],
        max_number_tree_insertion_results=st["max_number_tree_insertion_results"],
        enforce_unique_trees_in_queue=st["enforce_unique_trees_in_queue"],
        tree_insertion_methods=st["tree_insertion_methods"],
        activate_unsat_support=st["activate_unsat_support"],
        grammar_unwinding_threshold=st["grammar_unwinding_threshold"],
        enable_optimized_z3_queries=st["enable_optimized_z3_queries"],
        global_fuzzer=st["global_fuzzer"],
        timeout_seconds=st["timeout_seconds"],
        cost_computer=cc,
        fuzzer_factory=fuzzer_factory,
    )
    if sc.get("start_symbol"):
        kwargs["start_symbol"] = sc["start_symbol"]
    return ISLaSolver(grammar, sc["formula_text"], **kwargs)


class Monitors:
    """Seam monitors for C12 (fuzzer.expand_tree calls made by the solver) and C14
    (create_fixed_length_tree / numeric model values / count completion)."""

    def __init__(self):
        self.violations: List[Dict[str, Any]] = []
        self.counts: Dict[str, int] = {}

    def bump(self, k):
        self.counts[k] = self.counts.get(k, 0) + 1

    def install(self):
        """C14 monitors at the three build-to-target seams (inside solver steps)."""
        import isla.isla_predicates as ip
        import isla.solver as sv
        from oracles import targets

        mon = self
        undo = []

        orig_cflt = sv.create_fixed_length_tree

        def create_fixed_length_tree(start, canonical_grammar, target_length):
            result = orig_cflt(start, canonical_grammar, target_length)
            mon.bump("c14_fixed_length_calls")
            if result is not None:
                mon.bump("c14_fixed_length_built")
                nt = start if isinstance(start, str) else start.value
                g = {k: ["".join(alt) for alt in alts] for k, alts in canonical_grammar.items()}
                problem = targets.judge_fixed_length(g, nt, target_length, to_model(result), str(result))
                if problem:
                    mon.violations.append({"property": "C14", "clause": "solver_fixed_length", "detail": problem})
            return result

        sv.create_fixed_length_tree = create_fixed_length_tree
        undo.append(lambda: setattr(sv, "create_fixed_length_tree", orig_cflt))

        orig_int = sv.ISLaSolver.extract_model_value_int_var

        def extract_model_value_int_var(self_, fallback, var, model, fresh_var_map, length_vars, int_vars):
            result = orig_int(self_, fallback, var, model, fresh_var_map, length_vars, int_vars)
            if var in int_vars and not var.is_numeric():
                mon.bump("c14_numeric_built")
                try:
                    value = int(model[fresh_var_map[var]].as_string())
                except Exception:
                    return result
                problem = targets.judge_numeric(self_.grammar, var.n_type, value, to_model(result))
                if problem:
                    mon.violations.append({"property": "C14", "clause": "solver_numeric_value", "detail": problem})
            return result

        sv.ISLaSolver.extract_model_value_int_var = extract_model_value_int_var
        undo.append(lambda: setattr(sv.ISLaSolver, "extract_model_value_int_var", orig_int))

        pred = ip.COUNT_PREDICATE
        orig_count = pred.eval_fun

        def count(graph, in_tree, needle, num, negate=False):
            res = orig_count(graph, in_tree, needle, num, negate=negate)
            out = getattr(res, "result", None)
            if isinstance(out, dict) and not negate and hasattr(in_tree, "children") and len(out) == 1:
                (key, cand), = out.items()
                if key is in_tree or getattr(key, "id", None) == getattr(in_tree, "id", object()):
                    mon.bump("c14_count_completion")
                    try:
                        k = int(num if isinstance(num, str) else num.value)
                        g = graph.to_grammar()
                        problem = targets.judge_count(g, in_tree.value, needle, k, to_model(cand))
                    except (ValueError, AttributeError):
                        problem = None
                    if problem:
                        mon.violations.append({"property": "C14", "clause": "solver_count_completion", "detail": f"count(.., {needle}, {num}): {problem}"})
            return res

        try:
            pred.eval_fun = count
            undo.append(lambda: setattr(pred, "eval_fun", orig_count))
        except Exception:
            pass
        self._undo = undo

    def uninstall(self):
        for u in reversed(getattr(self, "_undo", [])):
            u()

    def wrap_fuzzer(self, fuzzer, grammar):
        mon = self
        orig = fuzzer.expand_tree

        def expand_tree(tree, *a, **kw):
            before = to_model(tree)
            result = orig(tree, *a, **kw)
            mon.bump("c12_expand_tree")
            try:
                problem = check_expansion(before, to_model(result), grammar)
            except RecursionError:
                problem = None
            if problem:
                mon.violations.append(
                    {"property": "C12", "clause": "solver_fuzzer_expand_tree", "detail": problem}
                )
            return result

        fuzzer.expand_tree = expand_tree
        return fuzzer


def check_expansion(before: MNode, after: MNode, grammar, root_label=None) -> Optional[str]:
    """C12 oracle: `after` is closed, valid, same root, and every node that was already
    expanded in `before` is unchanged (same id, label, child labels at same path)."""
    if after.label != before.label:
        return f"root label changed {before.label!r} -> {after.label!r}"
    v = validate_tree(after, grammar, before.label, allow_open=False, check_ids=True)
    if v:
        return "result invalid: " + v
    stack = [(before, after, ())]
    while stack:
        b, a, path = stack.pop()
        if b.label != a.label:
            return f"label changed at {path}: {b.label!r} -> {a.label!r}"
        if b.children is None:
            continue  # formerly open leaf: may gain children (and a new identity)
        if b.id != a.id:
            return f"id of already expanded node changed at {path}: {b.id} -> {a.id}"
        if a.children is None or len(a.children) != len(b.children):
            return f"children of expanded node changed at {path}"
        for i, (bc, ac) in enumerate(zip(b.children, a.children)):
            stack.append((bc, ac, path + (i,)))
    return None


def judge_solution(tree, sc: Dict[str, Any], recog: Recognizer) -> Tuple[List[Dict[str, Any]], Dict[str, Any]]:
    """C01 oracle on one returned tree."""
    out: List[Dict[str, Any]] = []
    info: Dict[str, Any] = {}
    m = to_model(tree)
    s_isla = str(tree)
    info["str"] = s_isla[:80]
    info["nodes"] = sum(1 for _ in iter_nodes_count(m))
    if not is_closed(m):
        out.append({"clause": "not_closed", "detail": s_isla[:200]})
        return out, info
    root = sc.get("start_symbol") or "<start>"
    v = validate_tree(m, sc.get("oracle_grammar") or sc["grammar"], root)
    if v:
        out.append({"clause": "not_a_derivation_tree", "detail": v})
        return out, info
    y = tree_yield(m)
    if y != s_isla:
        out.append({"clause": "string_differs_from_yield", "detail": f"{s_isla!r} vs {y!r}"})
    if len(y) <= 300 and not recog.member(y, root):
        out.append({"clause": "string_not_in_language", "detail": y[:200]})
    try:
        ok, sinfo = satisfies(m, sc["formula"])
        info.update(sinfo)
        info["decided"] = True
        if not ok:
            out.append({"clause": "constraint_not_satisfied", "detail": f"{y[:200]!r} violates {sc['formula_text'][:300]}"})
    except Abstain as e:
        info["decided"] = False
        info["abstain"] = str(e)
    except RecursionError:
        info["decided"] = False
        info["abstain"] = "recursion"
    return out, info


def setting_tags(st: Dict[str, Any]) -> List[str]:
    """Solver settings that identify the input class of a known finding."""
    tags = []
    tim = st.get("tree_insertion_methods")
    if tim == 0 or (tim is None and st.get("activate_unsat_support")):
        tags.append("setting:no_tree_insertion")
    if st.get("start_symbol"):
        tags.append("setting:start_symbol")
    return tags


def iter_nodes_count(m: MNode):
    stack = [m]
    while stack:
        n = stack.pop()
        yield n
        if n.children:
            stack.extend(n.children)


def execute(plan: Dict[str, Any]) -> Dict[str, Any]:
    world = World(plan)
    monitors = Monitors()
    record: Dict[str, Any] = {
        "run_seed": plan["run_seed"],
        "phase": plan["phase"],
        "violations": [],
        "outcomes": [],
        "inconclusive": [],
        "stats": {"trees": 0, "decided": 0, "nontrivial": 0, "abstain": 0, "terminal_reprobed": 0},
    }
    viol = record["violations"]
    with Quiet():
        world.install()
        monitors.install()
        try:
            _run(plan, world, monitors, record)
        except SimBudgetExceeded:
            record["inconclusive"].append("total_work_cap")
        finally:
            monitors.uninstall()
            world.uninstall()
    for v in monitors.violations:
        viol.append(v)
    record["monitor_counts"] = monitors.counts
    record["seam_counts"] = world.seam_counts()
    record["fired"] = world.fired()
    record["z3_results"] = world.z3.results
    record["z3_sites"] = world.z3.sites
    record["virtual_s"] = round(world.clock.now_virtual(), 3)
    h = hashlib.sha256()
    h.update(world.log.digest().encode())
    h.update(repr(record["outcomes"]).encode())
    record["digest"] = h.hexdigest()[:16]
    record["events"] = world.log.n
    return record


def _run(plan, world: World, monitors: Monitors, record):
    viol = record["violations"]
    stats = record["stats"]
    scenarios = plan["scenarios"]
    solvers: List[Any] = []
    recogs: List[Recognizer] = []
    hist: List[Dict[str, Any]] = []
    for i, sc in enumerate(scenarios):
        if sc.get("derived_from") is not None:
            # created later by a "derive" op; shares the list of known inputs with its source
            solvers.append(None)
            recogs.append(Recognizer(sc["grammar"]) if sc.get("derived_grammar") else recogs[sc["derived_from"]])
            hist.append({"terminal": None, "dead": False, "solutions": [],
                         "trees": [] if sc.get("derived_grammar") else hist[sc["derived_from"]]["trees"]})
            continue
        world.work.extend(world.op_work * 2)
        try:
            solvers.append(build_solver(world, sc, monitors))
            record["outcomes"].append(["new_solver", i, "ok"])
            if sc.get("start_symbol"):
                record["stats"]["start_symbol_solvers"] = record["stats"].get("start_symbol_solvers", 0) + 1
        except SimBudgetExceeded:
            solvers.append(None)
            record["inconclusive"].append(f"construct_budget:{i}")
            record["outcomes"].append(["new_solver", i, "budget"])
        except Exception as exc:
            solvers.append(None)
            sig = exception_signature(exc)
            record["inconclusive"].append(f"construct_exc:{sig['type']}:{sig['site']}:{sig['message']}")
            record["outcomes"].append(["new_solver", i, "exc", sig["type"], sig["site"]])
        recogs.append(Recognizer(sc.get("oracle_grammar") or sc["grammar"]))
        hist.append({"terminal": None, "dead": False, "solutions": [], "trees": []})

    from engines import apiops

    for op_index, op in enumerate(plan["ops"]):
        kind = op[0]
        if kind == "clock":
            world.clock.advance(float(op[1]))
            record["outcomes"].append(["clock", op[1]])
            continue
        if kind == "heal":
            world.heal()
            record["outcomes"].append(["heal"])
            continue
        i = op[1]
        if kind == "derive":
            from returns.maybe import Some

            src_solver = solvers[op[2]]
            if src_solver is None:
                record["outcomes"].append(["derive", i, "skipped"])
                continue
            world.work.extend(world.op_work * 2)
            try:
                if scenarios[i].get("derived_grammar"):
                    sci = scenarios[i]
                    extra = {}
                    if sci["cost"]["strategy"] != "real":
                        # a cost computer is bound to a grammar: the scheduler seam for the new one
                        from grammar_graph import gg
                        from isla.solver import CostSettings, CostWeightVector, GrammarBasedBlackboxCostComputer

                        real_cc = GrammarBasedBlackboxCostComputer(
                            CostSettings(CostWeightVector(*sci["cost"]["weights"]), k=sci["cost"]["k"]), gg.GrammarGraph.from_grammar(sci["grammar"]))
                        extra["cost_computer"] = Some(SimCostComputer(real_cc, sci["cost"]["strategy"], sci["cost"]["seed"] + 1, world.log))
                    solvers[i] = src_solver.copy_without_queue(grammar=Some(sci["grammar"]), formula=Some(sci["formula_text"]), **extra)
                else:
                    solvers[i] = src_solver.copy_without_queue(formula=Some(scenarios[i]["formula_text"]))
                record["outcomes"].append(["derive", i, "ok"])
                stats["derived_solvers"] = stats.get("derived_solvers", 0) + 1
            except SimBudgetExceeded:
                record["inconclusive"].append(f"construct_budget:{i}")
                record["outcomes"].append(["derive", i, "budget"])
            except Exception as exc:
                sig = exception_signature(exc)
                record["inconclusive"].append(f"construct_exc:{sig['type']}:{sig['site']}:{sig['message']}")
                record["outcomes"].append(["derive", i, "exc", sig["type"], sig["site"]])
            continue
        solver = solvers[i]
        h = hist[i]
        sc = scenarios[i]
        if solver is None or h["dead"]:
            record["outcomes"].append([kind, i, "skipped"])
            continue
        world.work.extend(world.op_work)
        if kind != "solve":
            apiops.run_api_op(kind, op, op_index, solver, sc, h, recogs[i], world, record)
            continue
        if "t_first_solve" not in h:
            # elapsed time on the monotonic virtual clock since the first solve() call
            h["t_first_solve"] = world.clock.now_virtual()
        try:
            tree = solver.solve()
            outcome = "tree"
        except StopIteration:
            outcome = "stop"
        except TimeoutError:
            outcome = "timeout"
        except SimBudgetExceeded:
            h["dead"] = True
            record["inconclusive"].append(f"op_work_cap:solve:{op_index}")
            record["outcomes"].append(["solve", i, "budget"])
            continue
        except Exception as exc:
            if world.work.tripped:
                # the deterministic work cap fired inside this call and was converted
                # or swallowed on the way out: inconclusive, not a verdict
                h["dead"] = True
                record["inconclusive"].append(f"op_work_cap:solve:{op_index}")
                record["outcomes"].append(["solve", i, "budget"])
                continue
            sig = exception_signature(exc)
            h["dead"] = True
            record["outcomes"].append(["solve", i, "exc", sig["type"], sig["site"]])
            viol.append(
                {
                    "property": "C02",
                    "clause": "other_exception",
                    "op_index": op_index,
                    "solver": i,
                    "signature": sig,
                    "detail": f"{sig['type']} at {sig['site']}: {sig['raw']}",
                    "features": features_with_grammar(sc["formula"], sc["grammar"]) + setting_tags(sc["settings"]) + grammar_features(sc["grammar"]),
                }
            )
            continue

        if world.work.tripped:
            h["dead"] = True
            record["inconclusive"].append(f"op_work_cap:solve:{op_index}")
            record["outcomes"].append(["solve", i, "budget"])
            continue

        # C02 history oracle
        if outcome == "timeout" and sc["settings"]["timeout_seconds"] is None:
            viol.append({"property": "C02", "clause": "timeout_without_configured_timeout", "op_index": op_index, "solver": i, "detail": "TimeoutError raised, no timeout configured"})
        elif outcome == "timeout" and h["terminal"] is None:
            # "TimeoutError (timeout configured)": the configured timeout must actually
            # have elapsed (ISLa truncates both readings to whole seconds: 1.5 s slack)
            elapsed = world.clock.now_virtual() - h["t_first_solve"]
            if elapsed < sc["settings"]["timeout_seconds"] - 1.5:
                viol.append({"property": "C02", "clause": "timeout_before_configured_timeout", "op_index": op_index, "solver": i,
                             "detail": f"TimeoutError after {elapsed:.2f} virtual s, configured timeout is {sc['settings']['timeout_seconds']} s"})
        if h["terminal"] is not None:
            stats["terminal_reprobed"] += 1
            if outcome != h["terminal"]:
                viol.append(
                    {
                        "property": "C02",
                        "clause": f"not_sticky_after_{h['terminal']}",
                        "op_index": op_index,
                        "solver": i,
                        "detail": f"after {h['terminal']} a later solve() gave {outcome}",
                    }
                )
        elif outcome in ("stop", "timeout"):
            h["terminal"] = outcome

        if outcome != "tree":
            record["outcomes"].append(["solve", i, outcome])
            continue

        stats["trees"] += 1
        h["trees"].append(tree)
        problems, info = judge_solution(tree, sc, recogs[i])
        if info.get("decided"):
            stats["decided"] += 1
            if info.get("quantifier_matches", 0) > 0:
                stats["nontrivial"] += 1
        elif "abstain" in info:
            stats["abstain"] += 1
        h["solutions"].append(info.get("str"))
        record["outcomes"].append(["solve", i, "tree", info.get("str"), info.get("quantifier_matches", 0)])
        for p in problems:
            p.update({"property": "C01", "op_index": op_index, "solver": i, "features": features_with_grammar(sc["formula"], sc["grammar"]) + setting_tags(sc["settings"])})
            viol.append(p)


# ------------------------------------------------------------------------- follow-up


def followup(plan: Dict[str, Any], record: Dict[str, Any]) -> Optional[Dict[str, Any]]:
    if plan.get("phase") != "dry" or plan.get("no_followup"):
        return None
    return place_faults(plan, record)
