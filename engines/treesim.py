"""treesim: operation histories on DerivationTree / SMTFormula objects against an
immutable reference model (C16, C17).

The scheduled dimension is the *history*: the order in which constructing operations,
lazily cached observers (hash, structural_hash, is_open, len, paths, trie, to_string,
depth, k_paths) and serialisations hit objects that share process-global lru_caches.
A Hypothesis RuleBasedStateMachine generates and shrinks the histories; every op is a
plain method with explicit integer arguments, so a recorded op list replays without
Hypothesis.
"""

import copy
import json
import sys
import pickle
import random
from typing import Any, Dict, List, Optional, Tuple

from oracles import grammar as og
from oracles.treemodel import (
    M,
    from_isla,
    m_depth,
    m_full,
    m_get,
    m_ids,
    m_open,
    m_parse_tree,
    m_paths,
    m_replace,
    m_str,
    m_struct,
)

ENGINE = "treesim"

G = {
    "<start>": ["<a>"],
    "<a>": ["<b><a>", "x", "<c>y<c>", "", "<w>"],
    "<b>": ["zz", "<a>", "(<a>)"],
    "<c>": ["<b>", "q"],
    "<w>": ["<c>" * 31 + "!", "w"],
}
NTS = ["<start>", "<a>", "<b>", "<c>", "<w>"]
TERMS = ["x", "y", "zz", "", "(", ")", "q", " ", "é", '"', "\\", "\n", "w", "!"]
LITERALS = ["a", 'a"b', "a\\b", "é", "a\nb", "\x00", 'ab\\"', "日本", 'a""b', "\\", '"', "", "\t", "\xff", "x y", "<a>", "{}", "\\u{41}", "'", "ü\"ß",
            "a  b", "    ", " \t \n ", "  lead", "trail  ", "(a b)", ") (", ";; comment", "a\r\nb", "\\n", "|x|", "#b101", "-1", "\x7f", "\U0001F600", "a" * 70]

POOL_CAP = 10
MAX_NODES = 150
MAX_WIDE_NODES = 2400  # only for nodes with more than 40 children (key-encoding boundaries of the trie)


class Failure(Exception):
    def __init__(self, prop: str, clause: str, detail: str):
        super().__init__(f"{prop}:{clause}: {detail}")
        self.prop = prop
        self.clause = clause
        self.detail = detail


class TreeWorld:
    def __init__(self):
        from grammar_graph import gg
        from isla.helpers import canonical

        self.pool: List[Tuple[Any, M]] = []  # (isla tree, model)
        self.formulas: List[Any] = []
        self.ops: List[List[Any]] = []
        self.graph = gg.GrammarGraph.from_grammar(G)
        self.canonical = canonical(G)
        self.struct_hashes: Dict[Any, int] = {}
        self.counters: Dict[str, int] = {}

    # ------------------------------------------------------------ helpers
    def bump(self, k):
        self.counters[k] = self.counters.get(k, 0) + 1

    def add(self, t, m: M):
        if len(m_paths(m)) > MAX_NODES:
            return
        self.pool.append((t, m))
        if len(self.pool) > POOL_CAP:
            self.pool.pop(0)

    def pick(self, i: int) -> Tuple[Any, M]:
        return self.pool[i % len(self.pool)]

    def fresh_if_overlap(self, t, m: M, used: set) -> Tuple[Any, M]:
        """Public operations assume unique node ids inside a tree; when a pool member
        is used twice, a new_ids() copy is used (and new_ids() is checked)."""
        ids = set(m_ids(m))
        if ids & used:
            t2 = t.new_ids()
            m2 = from_isla(t2)
            if m_struct(m2) != m_struct(m):
                raise Failure("C16", "new_ids_changes_structure", f"{m_struct(m)} -> {m_struct(m2)}")
            ids2 = set(m_ids(m2))
            if len(ids2) != len(m_ids(m2)) or ids2 & ids:
                raise Failure("C16", "new_ids_not_fresh", f"{sorted(ids2 & ids)}")
            return t2, m2
        return t, m

    # ------------------------------------------------------------ constructing ops
    def op_leaf(self, i: int):
        from isla.derivation_tree import DerivationTree

        t = DerivationTree(TERMS[i % len(TERMS)], ())
        self.add(t, from_isla(t))

    def op_open(self, i: int):
        from isla.derivation_tree import DerivationTree

        t = DerivationTree(NTS[i % len(NTS)], None)
        self.add(t, from_isla(t))

    def op_inner(self, nt: int, child_idxs: List[int]):
        from isla.derivation_tree import DerivationTree

        if not self.pool:
            return self.op_leaf(nt)
        used: set = set()
        children = []
        models = []
        total = 1
        for ci in child_idxs:
            t, m = self.pick(ci)
            total += len(m_paths(m))
            if total > (MAX_NODES if len(child_idxs) <= 40 else MAX_WIDE_NODES):
                break
            t, m = self.fresh_if_overlap(t, m, used)
            used |= set(m_ids(m))
            children.append(t)
            models.append(m)
        t = DerivationTree(NTS[nt % len(NTS)], children)
        m = M(t.value, t.id, tuple(models))
        if t.id in used:
            return
        if len(m_paths(m)) > MAX_NODES:
            # a very wide node (key-encoding boundaries of the trie): judged once, here,
            # and not kept in the pool (every later rule would pay for it again)
            self.check_tree(t, m)
            self.bump("very_wide_nodes_checked")
            return
        self.add(t, m)

    def op_replace(self, ti: int, path_sel: int, ri: int, retain_id: bool):
        if not self.pool:
            return
        t, m = self.pick(ti)
        r, rm = self.pick(ri)
        paths = m_paths(m)
        path, old = paths[path_sel % len(paths)]
        remaining = set(m_ids(m)) - set(m_ids(old))
        if retain_id:
            remaining |= set()
        r, rm = self.fresh_if_overlap(r, rm, remaining | ({old.id} if retain_id else set()))
        if len(paths) + len(m_paths(rm)) > MAX_NODES:
            return
        before_t = m_full(from_isla(t))
        before_r = m_full(from_isla(r))
        res = t.replace_path(path, r, retain_id=retain_id)
        if retain_id:
            exp_repl = M(rm.label, old.id, rm.children)
        else:
            exp_repl = rm
        exp = m_replace(m, path, exp_repl)
        if m_full(from_isla(t)) != before_t or m_full(from_isla(r)) != before_r:
            raise Failure("C16", "replace_path_mutated_operand", f"path {path}")
        got = from_isla(res)
        if m_full(got) != m_full(exp):
            raise Failure("C16", "replace_path_wrong_result", f"path {path} retain_id={retain_id}: got {m_full(got)} expected {m_full(exp)}")
        self.add(res, exp)
        self.bump("replace_path")

    def op_substitute(self, ti: int, sels: List[Tuple[int, int]]):
        if not self.pool:
            return
        t, m = self.pick(ti)
        paths = m_paths(m)
        chosen: Dict[Tuple[int, ...], Tuple[Any, M]] = {}
        used = set(m_ids(m))
        for ps, ri in sels[:3]:
            path, node = paths[ps % len(paths)]
            if path in chosen:
                continue
            r, rm = self.pick(ri)
            r, rm = self.fresh_if_overlap(r, rm, used)
            used |= set(m_ids(rm))
            chosen[path] = (r, rm)
        if not chosen:
            return
        # outermost keys win (a key nested in another key's subtree vanishes with it)
        outer = [p for p in chosen if not any(q != p and p[: len(q)] == q for q in chosen)]
        exp = m
        for p in outer:
            exp = m_replace(exp, p, chosen[p][1])
        if len(m_paths(exp)) > MAX_NODES:
            return
        subst = {t.get_subtree(p): chosen[p][0] for p in chosen}
        before_t = m_full(from_isla(t))
        res = t.substitute(subst)
        if m_full(from_isla(t)) != before_t:
            raise Failure("C16", "substitute_mutated_operand", "")
        got = from_isla(res)
        if m_full(got) != m_full(exp):
            raise Failure("C16", "substitute_wrong_result", f"keys {sorted(chosen)}: got {m_full(got)} expected {m_full(exp)}")
        self.add(res, exp)
        self.bump("substitute")

    def op_expand(self, ti: int, keep: int):
        if not self.pool:
            return
        t, m = self.pick(ti)
        open_paths = [p for p, n in m_paths(m) if n.children is None]
        if not open_paths or len(open_paths) > 3:
            return
        if any(m_get(m, p).label not in G for p in open_paths):
            return
        can = og.canonical(G)
        n_expected = 1
        for p in open_paths:
            n_expected *= len(can[m_get(m, p).label])
        if n_expected > 130:
            return
        results = t.expand_one_step(self.canonical)
        if len(results) != n_expected:
            raise Failure("C16", "expand_one_step_count", f"{len(results)} results, expected {n_expected}")
        seen = set()
        for res in results:
            got = from_isla(res)
            # every formerly open leaf got the children of exactly one alternative;
            # everything else (labels, ids) is unchanged
            combo = []
            for p in open_paths:
                node = m_get(got, p)
                old = m_get(m, p)
                if node is None or node.label != old.label or node.id != old.id or node.children is None:
                    raise Failure("C16", "expand_one_step_leaf", f"leaf at {p} not expanded in place")
                labels = [c.label for c in node.children]
                alts = can[old.label]
                if labels not in alts and not (labels == [] and [] in alts):
                    raise Failure("C16", "expand_one_step_alternative", f"{old.label} -> {labels}")
                for c in node.children:
                    if (c.children is None) != og.is_nt(c.label):
                        raise Failure("C16", "expand_one_step_child_shape", f"{c.label} children={c.children}")
                combo.append(tuple(labels))
            seen.add(tuple(combo))
            # collapse the expanded leaves again -> must equal the original
            back = got
            for p in open_paths:
                node = m_get(back, p)
                back = m_replace(back, p, M(node.label, node.id, None))
            if m_full(back) != m_full(m):
                raise Failure("C16", "expand_one_step_changed_rest", "")
        if len(seen) != n_expected:
            raise Failure("C16", "expand_one_step_duplicates", f"{len(seen)} distinct of {n_expected}")
        res = results[keep % len(results)]
        self.add(res, from_isla(res))
        self.bump("expand_one_step")

    def op_parse_roundtrip(self, ti: int):
        from isla.derivation_tree import DerivationTree

        if not self.pool:
            return
        t, m = self.pick(ti)
        pt = t.to_parse_tree()
        if _norm_pt(pt) != _norm_pt(m_parse_tree(m)):
            raise Failure("C16", "to_parse_tree", f"{pt} vs {m_parse_tree(m)}")
        t2 = DerivationTree.from_parse_tree(pt)
        m2 = from_isla(t2)
        if m_struct(m2) != m_struct(m):
            raise Failure("C16", "from_parse_tree", f"{m_struct(m2)} vs {m_struct(m)}")
        self.add(t2, m2)

    def op_new_ids(self, ti: int):
        if not self.pool:
            return
        t, m = self.pick(ti)
        t2, m2 = self.fresh_if_overlap(t, m, set(m_ids(m)))
        self.add(t2, m2)

    # ------------------------------------------------------------ cache touches
    def op_touch(self, ti: int, what: int):
        if not self.pool:
            return
        t, m = self.pick(ti)
        kinds = ["hash", "structural_hash", "is_open", "len", "paths", "trie", "to_string", "depth", "k_paths", "str", "leaves"]
        k = kinds[what % len(kinds)]
        if k == "hash":
            hash(t)
        elif k == "structural_hash":
            t.structural_hash()
        elif k == "is_open":
            t.is_open()
        elif k == "len":
            len(t)
        elif k == "paths":
            t.paths()
        elif k == "trie":
            t.trie()
        elif k == "to_string":
            t.to_string()
            t.to_string(True, True)
        elif k == "depth":
            if t.depth() != m_depth(m):
                raise Failure("C16", "depth", f"{t.depth()} vs {m_depth(m)}")
        elif k == "k_paths":
            if self.grammatical(m):
                t.k_paths(self.graph, 1 + what % 3)
                t.k_paths(self.graph, 2, include_potential_paths=False)
                self.bump("k_paths")
        elif k == "str":
            str(t)
        elif k == "leaves":
            list(t.leaves())
            list(t.open_leaves())
        self.bump("touch_" + k)

    def grammatical(self, m: M) -> bool:
        mm = _to_og(m)
        return og.is_nt(m.label) and og.validate_tree(mm, G, None, allow_open=True, check_ids=False) is None

    # ------------------------------------------------------------ serialisation (C17)
    def observe(self, t, m: M):
        """Every observer of a tree, as plain data."""
        obs = {
            "full": m_full(from_isla(t)),
            "str": str(t),
            "to_string": t.to_string(),
            "open": t.is_open(),
            "len": len(t),
            "paths": [(p, n.id) for p, n in t.paths()],
            "trie": [(p, q, n.id) for p, (q, n) in t.trie().items()],
            "hash_eq_self": hash(t) == hash(t),
            "shash": t.structural_hash(),
            "depth": t.depth(),
            "leaves": [(p, n.id) for p, n in t.leaves()],
        }
        if self.grammatical(m):
            # alternating order of concrete / potential queries for the same k
            for k in (1, 2, 3):
                first_concrete = (k + len(self.ops)) % 2 == 0
                for concrete in ((True, False) if first_concrete else (False, True)):
                    key = f"k{k}{'c' if concrete else 'p'}"
                    # (repr of a grammar-graph node prints its whole subgraph: use type, symbol, id)
                    obs[key] = sorted(
                        tuple((type(n).__name__, n.symbol, getattr(n, "id", None)) for n in kp)
                        for kp in t.k_paths(self.graph, k, include_potential_paths=not concrete)
                    )
            obs["kcov"] = round(t.k_coverage(self.graph, 2), 6)
        return obs

    def _serial(self, ti: int, how: str, observe_before: bool):
        from isla.derivation_tree import DerivationTree

        if not self.pool:
            return
        t, m = self.pick(ti)
        before = self.observe(t, m) if observe_before else None
        try:
            if how == "pickle":
                t2 = pickle.loads(pickle.dumps(t))
            elif how == "json":
                t2 = DerivationTree.from_json(t.to_json())
            elif how == "deepcopy":
                t2 = copy.deepcopy(t)
            elif how == "cli_json":
                from isla.cli import derivation_tree_to_json

                t2 = DerivationTree.from_parse_tree(json.loads(derivation_tree_to_json(t, pretty_print=bool(ti % 2))))
            else:
                raise ValueError(how)
        except Failure:
            raise
        except Exception as exc:
            raise Failure("C17", f"{how}_raises", f"{type(exc).__name__}: {exc}")
        m2 = from_isla(t2)
        if how == "cli_json":
            if m_struct(m2) != m_struct(m):
                raise Failure("C17", "cli_json_roundtrip", f"{m_struct(m2)} vs {m_struct(m)}")
        else:
            if m_full(m2) != m_full(m):
                raise Failure("C17", f"{how}_roundtrip", f"{m_full(m2)} vs {m_full(m)}")
            if str(t2) != m_str(m, True):
                raise Failure("C17", f"{how}_roundtrip_string", f"{str(t2)!r} vs {m_str(m, True)!r}")
        # the original must behave as before
        try:
            after = self.observe(t, m)
        except Failure:
            raise
        except Exception as exc:
            raise Failure("C17", f"{how}_damages_original", f"observer raised {type(exc).__name__}: {exc}")
        if before is not None and after != before:
            diff = [k for k in before if before[k] != after.get(k)]
            raise Failure("C17", f"{how}_changes_original", f"observers differ: {diff}")
        # the decoded object must be a fully working tree, too, and behave like the
        # original under every observer (ids are preserved except by the CLI JSON)
        try:
            self.check_tree(t2, m2)
            obs2 = self.observe(t2, m2)
            skip = {"hash_eq_self"} | ({"full", "paths", "trie", "leaves"} if how == "cli_json" else set())
            diff = [k for k in after if k not in skip and after[k] != obs2.get(k)]
            if diff:
                raise Failure("C17", f"{how}_decoded_tree_behaves_differently", f"observers differ from the original's: {diff}")
        except Failure as f:
            if f.clause.endswith("_decoded_tree_behaves_differently"):
                raise
            raise Failure("C17", f"{how}_decoded_tree_inconsistent", f.detail)
        except Exception as exc:
            raise Failure("C17", f"{how}_decoded_tree_unusable", f"{type(exc).__name__}: {exc}")
        self.add(t2, m2)
        self.bump("serial_" + how)

    def op_pickle(self, ti: int, observe_before: bool):
        self._serial(ti, "pickle", observe_before)

    def op_json(self, ti: int, observe_before: bool):
        self._serial(ti, "json", observe_before)

    def op_deepcopy(self, ti: int, observe_before: bool):
        self._serial(ti, "deepcopy", observe_before)

    def op_cli_json(self, ti: int, observe_before: bool):
        self._serial(ti, "cli_json", observe_before)

    def op_formula_pickle(self, lit: int, shape: int, with_tree: int):
        import z3
        from isla import language as L
        from isla.z3_helpers import z3_eq

        s = LITERALS[lit % len(LITERALS)]
        x = L.Variable("x", "<a>")
        y = L.Variable("y", "<b>")
        xs, ys = x.to_smt(), y.to_smt()
        sv = z3.StringVal(s)
        shapes = [
            (z3_eq(xs, sv), [x]),
            (z3.PrefixOf(sv, xs), [x]),
            (z3.InRe(xs, z3.Concat(z3.Re(sv), z3.Star(z3.Range("a", "c")))), [x]),
            (z3.And(z3_eq(xs, sv), z3.Not(z3_eq(ys, z3.Concat(sv, sv)))), [x, y]),
            (z3.Contains(z3.Concat(xs, ys), sv), [x, y]),
            (z3.Length(xs) > z3.Length(sv), [x]),
        ]
        f, vs = shapes[shape % len(shapes)]
        try:
            formula = L.SMTFormula(f, *vs)
            if with_tree % 3 == 0 and self.pool:
                # an instantiated formula: substitution of a tree for x
                t, m = self.pick(with_tree)
                formula = L.SMTFormula(
                    f, *[v for v in vs if v is not x], instantiated_variables=L.OrderedSet([x]),
                    substitutions={x: t}, auto_eval=False,
                )
        except Exception:
            return  # construction is not the operation under test
        try:
            g = pickle.loads(pickle.dumps(formula))
        except Exception as exc:
            raise Failure("C17", "formula_pickle_raises", f"literal {s!r}: {type(exc).__name__}: {str(exc)[:200]}")
        if not z3.eq(g.formula, formula.formula):
            raise Failure("C17", "formula_pickle_changes_formula", f"literal {s!r}: {formula.formula.sexpr()} -> {g.formula.sexpr()}")
        if list(map(str, g.free_variables())) != list(map(str, formula.free_variables())):
            raise Failure("C17", "formula_pickle_changes_variables", f"{g.free_variables()} vs {formula.free_variables()}")
        if {str(k): m_full(from_isla(v)) for k, v in g.substitutions.items()} != {
            str(k): m_full(from_isla(v)) for k, v in formula.substitutions.items()
        }:
            raise Failure("C17", "formula_pickle_changes_substitutions", "")
        self.bump("formula_pickle")

    # ------------------------------------------------------------ invariants (C16)
    def check_tree(self, t, m: M):
        got = from_isla(t)
        if m_full(got) != m_full(m):
            raise Failure("C16", "tree_differs_from_model", f"{m_full(got)} vs {m_full(m)}")
        if t.to_string() != m_str(m, False):
            raise Failure("C16", "string_not_concat_of_terminal_leaves", f"{t.to_string()!r} vs {m_str(m, False)!r}")
        if str(t) != m_str(m, True):
            raise Failure("C16", "str_differs", f"{str(t)!r} vs {m_str(m, True)!r}")
        if bool(t.is_open()) != m_open(m) or bool(t.is_complete()) == m_open(m):
            raise Failure("C16", "openness", f"is_open={t.is_open()} model={m_open(m)}")
        mp = m_paths(m)
        tp = t.paths()
        if [(p, n.id, n.value) for p, n in tp] != [(p, n.id, n.label) for p, n in mp]:
            raise Failure("C16", "paths", "paths() disagrees with the model")
        if len(t) != len(mp):
            raise Failure("C16", "len", f"{len(t)} vs {len(mp)}")
        items = t.trie().items()
        if [(p, q, n.id) for p, (q, n) in items] != [(p, p, n.id) for p, n in mp]:
            raise Failure("C16", "trie_items", f"trie has {len(items)} entries, tree has {len(mp)} nodes; first difference: {_first_diff([(p, n.id) for p, (q, n) in items], [(p, n.id) for p, n in mp])}")
        step = max(1, len(mp) // 7)
        for p, n in mp[::step] + mp[-1:]:
            sub = t.get_subtree(p)
            if sub is None or sub.id != n.id or sub.value != n.label:
                raise Failure("C16", "get_subtree", f"at {p}")
            if not t.is_valid_path(p):
                raise Failure("C16", "is_valid_path", f"valid path {p} rejected")
            if t.find_node(n.id) != p:
                raise Failure("C16", "find_node", f"id {n.id}: {t.find_node(n.id)} vs {p}")
            if t.find_node(sub) != p:
                raise Failure("C16", "find_node_by_tree", f"{p}")
            rel = [(q[len(p):], k.id) for q, k in mp if q[: len(p)] == p]
            st = t.trie().get_subtrie(p)
            if [(a, k.id) for a, (b, k) in st.items()] != rel or [(b, k.id) for a, (b, k) in st.items()] != rel:
                raise Failure("C16", "get_subtrie", f"sub-trie at {p} disagrees with the subtree")
            bad = p + (len(n.children or ()),)
            if t.is_valid_path(bad):
                raise Failure("C16", "is_valid_path", f"invalid path {bad} accepted")
        if [(p, n.id) for p, n in t.leaves()] != [(p, n.id) for p, n in mp if not n.children]:
            raise Failure("C16", "leaves", "")
        if [(p, n.id) for p, n in t.open_leaves()] != [(p, n.id) for p, n in mp if n.children is None]:
            raise Failure("C16", "open_leaves", "")

    def check_all(self):
        by_struct: Dict[Any, Tuple[int, Any]] = {}
        by_full: Dict[Any, Tuple[int, Any]] = {}
        for t, m in self.pool:
            self.check_tree(t, m)
            s = m_struct(m)
            sh = t.structural_hash()
            if s in by_struct:
                if by_struct[s][0] != sh:
                    raise Failure("C16", "structural_hash_differs_for_equal_structure", f"{s}")
                if not t.structurally_equal(by_struct[s][1]):
                    raise Failure("C16", "structurally_equal_false_for_equal_structure", f"{s}")
            else:
                by_struct[s] = (sh, t)
            f = m_full(m)
            if f in by_full:
                other = by_full[f][1]
                if not (t == other):
                    raise Failure("C16", "eq_false_for_identical_trees", f"{f}")
                if hash(t) != by_full[f][0]:
                    raise Failure("C16", "hash_differs_for_equal_trees", f"{f}")
            else:
                by_full[f] = (hash(t), t)
        # distinct structures must not be structurally_equal
        ts = list(by_struct.items())
        for i in range(len(ts)):
            for j in range(i + 1, min(len(ts), i + 3)):
                if ts[i][1][1].structurally_equal(ts[j][1][1]):
                    raise Failure("C16", "structurally_equal_true_for_different_structure", f"{ts[i][0]} vs {ts[j][0]}")

    # ------------------------------------------------------------ replay
    def op_restart(self, hashseed: int, touch: int):
        """Process restart: only what was made durable survives.  Every pool member is
        pickled and JSON-encoded here (after touching its lazily cached fields according
        to `touch`), and decoded and judged in a fresh interpreter with another hash
        seed (engines/treechild.py)."""
        import base64
        import os
        import pickle
        import platform
        import shutil
        import subprocess

        def model_json(m: M):
            return [m.label, m.id, None if m.children is None else [model_json(c) for c in m.children]]

        items = []
        for k, (t, m) in enumerate(self.pool):
            if (touch >> (k % 8)) & 1:
                hash(t)
                t.structural_hash()
                t.is_open()
            if len(m_paths(m)) > 400:
                continue
            items.append({"pickle": base64.b64encode(pickle.dumps(t)).decode(), "json": t.to_json(), "model": model_json(m)})
        if not items:
            return
        verif = os.path.dirname(os.path.dirname(os.path.abspath(__file__)))
        env = dict(os.environ, PYTHONHASHSEED=str(hashseed), PYTHONWARNINGS="ignore")
        alt = env.get("VERIF_REPO_SRC")
        env["PYTHONPATH"] = verif + (os.pathsep + alt if alt else "")
        setarch = shutil.which("setarch")
        cmd = ([setarch, platform.machine(), "-R"] if setarch else []) + [sys.executable, os.path.join(verif, "engines", "treechild.py")]
        try:
            p = subprocess.run(cmd, input=json.dumps({"trees": items}).encode(), capture_output=True, timeout=120, env=env, cwd="/tmp")
            out = json.loads(p.stdout.decode())
        except Exception as exc:
            self.bump("restart_child_lost")
            self.restart_lost = f"{type(exc).__name__}: {exc}"[:200]
            return
        self.bump("restarts")
        self.counters["restart_trees_decoded"] = self.counters.get("restart_trees_decoded", 0) + out.get("checked", 0)
        if out.get("problems"):
            clause, detail = out["problems"][0]
            raise Failure(getattr(self, "focus_prop", "C17"), clause, f"fresh interpreter, PYTHONHASHSEED={hashseed}: {detail}")

    def apply(self, op: List[Any]):
        self.ops.append(op)
        name, args = op[0], op[1:]
        getattr(self, "op_" + name)(*args)
        self.check_all()


def _norm_pt(pt):
    label, ch = pt
    return (label, None if ch is None else [_norm_pt(c) for c in ch])


def _first_diff(a, b):
    for i, (x, y) in enumerate(zip(a, b)):
        if x != y:
            return (i, x, y)
    return (min(len(a), len(b)), None, None)


def _to_og(m: M) -> og.MNode:
    return og.MNode(m.label, m.id, None if m.children is None else [_to_og(c) for c in m.children])


# ------------------------------------------------------------------------- hypothesis machine


def build_machine(focus: str):
    from hypothesis import strategies as st
    from hypothesis.stateful import RuleBasedStateMachine, initialize, rule

    idx = st.integers(min_value=0, max_value=40)
    small = st.integers(min_value=0, max_value=200)

    class Machine(RuleBasedStateMachine):
        last_ops: List[List[Any]] = []

        def __init__(self):
            super().__init__()
            self.w = TreeWorld()
            Machine.last_world = self.w

        def do(self, op):
            self.w.apply(op)

        @initialize(a=idx, b=idx)
        def init(self, a, b):
            self.do(["open", a])
            self.do(["leaf", b])

        @rule(i=idx)
        def leaf(self, i):
            self.do(["leaf", i])

        @rule(i=idx)
        def open_(self, i):
            self.do(["open", i])

        @rule(nt=idx, ch=st.lists(idx, min_size=0, max_size=4))
        def inner(self, nt, ch):
            self.do(["inner", nt, ch])

        @rule(nt=idx, c=idx, n=st.one_of(st.integers(min_value=27, max_value=40), st.integers(min_value=27, max_value=40), st.integers(min_value=27, max_value=60),
                                         st.integers(min_value=41, max_value=120),
                                         st.sampled_from([53, 54, 55, 56, 57, 80, 81, 82, 108, 109, 728, 729, 730, 755, 756, 757, 758])))
        def wide(self, nt, c, n):
            self.do(["inner", nt, [c] * n])

        @rule(t=idx, p=small, r=idx, keep=st.booleans())
        def replace(self, t, p, r, keep):
            self.do(["replace", t, p, r, keep])

        @rule(t=idx, sels=st.lists(st.tuples(small, idx), min_size=1, max_size=3))
        def substitute(self, t, sels):
            self.do(["substitute", t, [list(s) for s in sels]])

        @rule(t=idx, keep=small)
        def expand(self, t, keep):
            self.do(["expand", t, keep])

        @rule(t=idx)
        def parse_roundtrip(self, t):
            self.do(["parse_roundtrip", t])

        @rule(t=idx)
        def new_ids(self, t):
            self.do(["new_ids", t])

        @rule(t=idx, what=small)
        def touch(self, t, what):
            self.do(["touch", t, what])

        if focus in ("C17", "both"):

            @rule(t=idx, ob=st.booleans())
            def pickle_(self, t, ob):
                self.do(["pickle", t, ob])

            @rule(t=idx, ob=st.booleans())
            def json_(self, t, ob):
                self.do(["json", t, ob])

            @rule(t=idx, ob=st.booleans())
            def deepcopy_(self, t, ob):
                self.do(["deepcopy", t, ob])

            @rule(t=idx, ob=st.booleans())
            def cli_json(self, t, ob):
                self.do(["cli_json", t, ob])

            @rule(lit=idx, shape=idx, wt=idx)
            def formula_pickle(self, lit, shape, wt):
                self.do(["formula_pickle", lit, shape, wt])

    return Machine


# ------------------------------------------------------------------------- engine API


def warm():
    import isla.cli  # noqa
    import isla.derivation_tree  # noqa
    import hypothesis  # noqa


def make_plan(run_seed: int, profile: Dict[str, Any]) -> Dict[str, Any]:
    return {
        "engine": ENGINE,
        "run_seed": run_seed,
        "phase": "histories",
        "focus": profile.get("focus", "both"),
        "examples": profile.get("examples", 60),
        "steps": profile.get("steps", 30),
    }


def execute(plan: Dict[str, Any]) -> Dict[str, Any]:
    import logging

    logging.disable(logging.CRITICAL)
    record: Dict[str, Any] = {"run_seed": plan["run_seed"], "phase": plan.get("phase"), "violations": [], "inconclusive": []}
    if "ops" in plan:
        # scripted replay of one history
        w = TreeWorld()
        w.focus_prop = "C16" if plan.get("focus") == "C16" else "C17"
        try:
            for op in plan["ops"]:
                w.apply(op)
        except Failure as f:
            record["violations"].append(_violation(f, w.ops, len(w.ops) - 1))
        except Exception as exc:
            record["violations"].append(_harness_or_crash(exc, w.ops))
        record["histories"] = 1
        record["ops_total"] = len(w.ops)
        record["counters"] = w.counters
        record["digest"] = _digest([w.ops])
        return record

    from hypothesis import HealthCheck, Phase, seed, settings
    from hypothesis.stateful import run_state_machine_as_test

    Machine = build_machine(plan["focus"])
    histories: List[int] = []
    counters: Dict[str, int] = {}
    digests = set()
    orig_teardown = Machine.teardown

    def teardown(self):
        histories.append(len(self.w.ops))
        for k, v in self.w.counters.items():
            counters[k] = counters.get(k, 0) + v
        digests.add(_digest([self.w.ops]))
        if len(record.setdefault("sample_histories", [])) < 2 and len(self.w.ops) > 6:
            record["sample_histories"].append(self.w.ops[:40])

    Machine.teardown = teardown
    try:
        run_state_machine_as_test(
            seed(plan["run_seed"])(Machine),
            settings=settings(
                max_examples=plan["examples"],
                stateful_step_count=plan["steps"],
                database=None,
                deadline=None,
                report_multiple_bugs=False,
                suppress_health_check=list(HealthCheck),
                derandomize=False,
            ),
        )
    except Failure as f:
        w = Machine.last_world
        record["violations"].append(_violation(f, w.ops, len(w.ops) - 1))
    except BaseException as exc:
        if type(exc).__name__ in ("SimBackstop", "KeyboardInterrupt", "SystemExit"):
            raise
        w = getattr(Machine, "last_world", None)
        record["violations"].append(_harness_or_crash(exc, w.ops if w else []))
    if not record["violations"] and getattr(Machine, "last_world", None) is not None and plan.get("restart", True):
        # one process restart per run seed, at the end of the last history: the pool is
        # made durable and judged in a fresh interpreter with another hash seed
        w = Machine.last_world
        w.focus_prop = "C16" if plan.get("focus") == "C16" else "C17"
        rs = plan["run_seed"]
        try:
            w.apply(["restart", 100 + rs % 7, (rs * 2654435761) % 256])
        except Failure as f:
            record["violations"].append(_violation(f, w.ops, len(w.ops) - 1))
        except Exception as exc:
            record["violations"].append(_harness_or_crash(exc, w.ops))
        for k, v in w.counters.items():
            if k.startswith("restart"):
                counters[k] = counters.get(k, 0) + v
        if getattr(w, "restart_lost", None):
            record["inconclusive"].append("restart_child:" + w.restart_lost)
    record["histories"] = len(histories)
    record["ops_total"] = sum(histories)
    record["counters"] = counters
    record["distinct_histories"] = len(digests)
    record["digest"] = _digest(sorted(digests))
    return record


def _digest(obj) -> str:
    import hashlib

    return hashlib.sha256(json.dumps(obj, default=str).encode()).hexdigest()[:16]


def _violation(f: Failure, ops, op_index):
    return {
        "property": f.prop,
        "clause": f.clause,
        "detail": f.detail[:600],
        "op_index": op_index,
        "ops": ops,
        "signature": {"type": "Failure", "site": f.clause, "message": "", "raw": ""},
    }


def _harness_or_crash(exc: BaseException, ops):
    """An exception that is not an oracle Failure: either ISLa crashed inside a public
    tree operation (a violation: operations must not raise on well-formed trees) or
    the harness is broken.  Distinguished by the innermost frame."""
    import traceback

    from sim.world import exception_signature

    sig = exception_signature(exc)
    tb = traceback.extract_tb(exc.__traceback__)
    innermost = tb[-1].filename if tb else ""
    in_isla = "/isla/" in innermost or "datrie" in innermost or "/z3/" in innermost or "grammar_graph" in innermost
    last = ops[-1][0] if ops else "?"
    prop = "C17" if last in ("pickle", "json", "deepcopy", "cli_json", "formula_pickle") else "C16"
    if not in_isla:
        return {
            "property": "HARNESS", "clause": "harness_exception",
            "detail": "".join(traceback.format_exception(exc))[-1500:], "ops": ops, "signature": sig,
        }
    return {
        "property": prop, "clause": "operation_raises",
        "detail": f"op {ops[-1] if ops else None}: {sig['type']} at {sig['site']}: {sig['raw']}",
        "op_index": len(ops) - 1, "ops": ops, "signature": sig,
    }


def simplifications(plan: Dict[str, Any], violation: Dict[str, Any]):
    """A violating treesim record carries its (Hypothesis-shrunk) op list; turn the
    seed plan into a scripted plan."""
    if "ops" not in plan and violation.get("ops"):
        q = {k: v for k, v in plan.items() if k not in ("examples", "steps")}
        q["ops"] = violation["ops"]
        yield q


def scripted_plan(plan: Dict[str, Any], violation: Dict[str, Any]) -> Dict[str, Any]:
    for q in simplifications(plan, violation):
        return q
    return plan
