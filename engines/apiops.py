"""C18 operations inside solversim: check / parse / repair / mutate on valid,
syntactically invalid and semantically invalid inputs, judged by Oracle-G/Oracle-S."""

import random
from typing import Any, Dict, List, Optional

from gen.grammars import sample_word
from oracles.grammar import Recognizer, count_parses, is_closed, to_model, tree_yield, validate_tree
from oracles.semantics import Abstain, satisfies
from sim.seams import SimBudgetExceeded
from sim.world import exception_signature

EDIT_CHARS = list("abcxyz019 ;:=<>{}\n\"'é")


def edit_string(s: str, rng: random.Random) -> str:
    for _ in range(rng.randint(1, 2)):
        r = rng.random()
        if s and r < 0.35:
            i = rng.randrange(len(s))
            s = s[:i] + s[i + 1 :]
        elif r < 0.7:
            i = rng.randrange(len(s) + 1)
            s = s[:i] + rng.choice(EDIT_CHARS) + s[i:]
        elif s:
            i = rng.randrange(len(s))
            s = s[:i] + rng.choice(EDIT_CHARS) + s[i + 1 :]
    return s


def _shape(m):
    return (m.label, None if m.children is None else tuple(_shape(c) for c in m.children))


def _setting_tags(st):
    from engines.solversim import setting_tags

    return setting_tags(st)


def _iter(m):
    stack = [m]
    while stack:
        n = stack.pop()
        yield n
        if n.children:
            stack.extend(n.children)


def oracle_verdict(tree, sc) -> Optional[bool]:
    """Oracle-S verdict for an ISLa tree (after Oracle-G validation); None = abstain."""
    m = to_model(tree)
    if not is_closed(m) or validate_tree(m, sc["grammar"], "<start>"):
        return None
    try:
        ok, _ = satisfies(m, sc["formula"])
        return ok
    except (Abstain, RecursionError):
        return None


def run_api_op(kind, op, op_index, solver, sc, h, recog: Recognizer, world, record):
    from isla.derivation_tree import DerivationTree
    from isla.solver import SemanticError, UnknownResultError
    from returns.maybe import Maybe
    from returns.pipeline import is_successful

    rng = random.Random(op[2])
    viol = record["violations"]
    stats = record["stats"]
    i = op[1]
    grammar = sc["grammar"]

    def v(clause, detail, sig=None):
        from gen.formulas import features_with_grammar
        from gen.grammars import grammar_features

        d = {"property": "C18", "clause": clause, "op_index": op_index, "solver": i, "detail": detail[:400],
             "features": features_with_grammar(sc["formula"], sc["grammar"]) + _setting_tags(sc["settings"]) + grammar_features(sc["grammar"])}
        if sig:
            d["signature"] = sig
        viol.append(d)

    def bump(k):
        stats[k] = stats.get(k, 0) + 1

    z3_faults_before = sum(world.z3.fired.values())
    natural_unknown_before = world.z3.natural_unknown

    def z3_trouble() -> bool:
        return (
            sum(world.z3.fired.values()) > z3_faults_before
            or world.z3.natural_unknown > natural_unknown_before
        )

    # ---------------- check on trees built by the harness (own random derivations):
    # verdicts must depend on the *tree*, also when another tree with the same string
    # was seen before (ambiguous grammars), and also for nodes with no children
    if kind == "check_tree":
        from engines.choicesim import derive_model, to_isla

        ids = [20_000_000 + (op[2] % 1000) * 10_000]
        results = []
        # candidates: several derivations; different trees with the *same string*
        # (ambiguous grammars) are checked first, one after the other
        cands = []
        for _ in range(10):
            m = derive_model(grammar, "<start>", rng, rng.randint(1, 4), ids)
            if sum(1 for _ in _iter(m)) <= 150:
                cands.append(m)
        by_yield: Dict[str, List[Any]] = {}
        for m in cands:
            group = by_yield.setdefault(tree_yield(m), [])
            if all(_shape(m) != _shape(o) for o in group):
                group.append(m)
        ordered = [m for g in sorted(by_yield.values(), key=lambda g: -len(g)) for m in g]
        for m in ordered[: rng.randint(2, 4)]:
            if False:
                continue
            if rng.random() < 0.5:
                # the parser's representation of an epsilon expansion: no child at all
                # (the fuzzer's is one child labelled "")
                for n in _iter(m):
                    if n.children is not None and len(n.children) == 1 and n.children[0].label == "" and n.label.startswith("<"):
                        n.children = ()
            try:
                exp, _info = satisfies(m, sc["formula"])
            except (Abstain, RecursionError):
                continue
            tree = to_isla(m)
            try:
                got = solver.check(tree)
            except SimBudgetExceeded:
                record["inconclusive"].append(f"op_work_cap:check_tree:{op_index}")
                h["dead"] = True
                return
            except UnknownResultError:
                if not z3_trouble():
                    v("unknown_result_without_z3_trouble", f"check(tree {tree_yield(m)!r}) raised UnknownResultError although every Z3 query was decided")
                continue
            except Exception as exc:
                if world.work.tripped:
                    record["inconclusive"].append(f"op_work_cap:check_tree:{op_index}")
                    h["dead"] = True
                    return
                sig = exception_signature(exc)
                v("api_exception", f"check(tree {tree_yield(m)!r}): {sig['type']} at {sig['site']}: {sig['raw']}", sig)
                continue
            bump("api_inputs")
            bump("api_check_tree")
            results.append((tree_yield(m), got, exp))
            if got != exp:
                v("check_tree_disagrees_with_semantics", f"check(tree) = {got} for a tree of {tree_yield(m)!r}, specification says {exp}; constraint {sc['formula_text'][:200]}")
        record["outcomes"].append([kind, i, results[:3]])
        return

    # ---------------- choose the input
    base_kind = kind.replace("_mut", "").replace("_word", "")
    mutated = kind.endswith("_mut") or kind.endswith("_word")
    own_word = kind.endswith("_word")  # a word of the language derived by the harness, unedited
    inp_str: Optional[str] = None
    inp_tree = None
    if not mutated:
        if not h["trees"]:
            record["outcomes"].append([kind, i, "no_input"])
            return
        inp_tree = rng.choice(h["trees"])
        inp_str = str(inp_tree)
    else:
        if h["trees"] and rng.random() < 0.6 and not own_word:
            inp_str = edit_string(str(rng.choice(h["trees"])), rng)
        else:
            w = sample_word(grammar, "<start>", rng, max_depth=6)
            if w is None or len(w) > 80:
                record["outcomes"].append([kind, i, "no_input"])
                return
            inp_str = w
            if rng.random() < 0.3 and not own_word:
                inp_str = edit_string(inp_str, rng)
    if len(inp_str) > 120:
        record["outcomes"].append([kind, i, "input_too_long"])
        return

    member = recog.member(inp_str, "<start>")
    n_parses = count_parses(grammar, inp_str, "<start>", cap=2) if member else 0
    unambiguous = n_parses == 1

    # reference tree + verdict for the string
    sat: Optional[bool] = None
    ref_tree = None
    if member:
        if inp_tree is not None:
            ref_tree = inp_tree
        else:
            try:
                ref_tree = solver.parse(inp_str, skip_check=True, silent=True)
            except SimBudgetExceeded:
                raise
            except Exception as exc:
                sig = exception_signature(exc)
                v("parse_rejects_member", f"parse(skip_check) of member {inp_str!r}: {sig['type']} {sig['raw']}", sig)
                record["outcomes"].append([kind, i, "exc", sig["type"]])
                return
            m = to_model(ref_tree)
            pv = validate_tree(m, grammar, "<start>")
            if pv or tree_yield(m) != inp_str:
                v("parse_tree_unfaithful", f"parse({inp_str!r}) -> {pv or 'yield differs: ' + tree_yield(m)!r}")
                record["outcomes"].append([kind, i, "bad_parse_tree"])
                return
        if unambiguous or inp_tree is not None:
            sat = oracle_verdict(ref_tree, sc)
    bump("api_inputs")
    if member and sat is True:
        bump("api_valid_inputs")
    elif member and sat is False:
        bump("api_semantically_invalid_inputs")
    elif not member:
        bump("api_syntactically_invalid_inputs")

    def guarded(fn, what):
        """Runs one API call; classifies exceptions.  Returns (tag, value)."""
        def budget():
            record["inconclusive"].append(f"op_work_cap:{what}:{op_index}")
            h["dead"] = True
            return "budget", None

        try:
            value = fn()
            if world.work.tripped:
                return budget()
            return "ok", value
        except SimBudgetExceeded:
            return budget()
        except Exception as exc:
            if world.work.tripped:
                return budget()
            if isinstance(exc, SyntaxError):
                return "syntax", exc
            if isinstance(exc, SemanticError):
                return "semantic", exc
            if isinstance(exc, UnknownResultError):
                return "unknown", exc
            return "exc", exc

    def unexpected(tag, val, what):
        if tag == "unknown":
            if z3_trouble():
                bump("api_unknown_under_z3_trouble")
                record["outcomes"].append([kind, i, "unknown_accepted"])
            else:
                v("unknown_result_without_z3_trouble", f"{what} on {inp_str!r} raised UnknownResultError although every Z3 query was decided")
            return
        if tag == "exc":
            sig = exception_signature(val)
            v("api_exception", f"{what} on {inp_str!r}: {sig['type']} at {sig['site']}: {sig['raw']}", sig)
            record["outcomes"].append([kind, i, "exc", sig["type"], sig["site"]])

    # ---------------- the operation
    if base_kind == "check":
        tag, res = guarded(lambda: solver.check(inp_str), "check")
        if tag == "budget":
            return
        if tag in ("unknown", "exc"):
            unexpected(tag, res, "check(str)")
            return
        if tag != "ok" or not isinstance(res, bool):
            v("check_raised", f"check({inp_str!r}) -> {tag}")
            return
        record["outcomes"].append([kind, i, "check", res, member, sat])
        if not member and res:
            v("check_true_for_non_member", f"check({inp_str!r}) is True but the string is not in the language")
        if member and sat is not None and unambiguous:
            if res != sat:
                v("check_string_disagrees_with_semantics", f"check({inp_str!r}) = {res}, specification says {sat}; constraint {sc['formula_text'][:200]}")
            else:
                bump("api_check_agreed")
        if member and ref_tree is not None and unambiguous:
            tag2, res2 = guarded(lambda: solver.check(ref_tree), "check_tree")
            if tag2 == "budget":
                return
            if tag2 in ("unknown", "exc"):
                unexpected(tag2, res2, "check(tree)")
                return
            if tag2 == "ok" and res2 != res:
                v("check_tree_vs_string", f"check(tree)={res2} but check(str)={res} for {inp_str!r} (unambiguous)")
            if tag2 == "ok" and sat is not None and res2 != sat:
                v("check_tree_disagrees_with_semantics", f"check(tree of {inp_str!r}) = {res2}, specification says {sat}")
        return

    if base_kind == "parse":
        tag, res = guarded(lambda: solver.parse(inp_str, silent=True), "parse")
        if tag == "budget":
            return
        if tag in ("unknown", "exc"):
            unexpected(tag, res, "parse")
            return
        record["outcomes"].append([kind, i, "parse", tag, member, sat])
        if not member:
            if tag != "syntax":
                v("parse_no_syntax_error", f"parse({inp_str!r}) -> {tag} for a string outside the language")
            else:
                bump("api_parse_agreed")
            return
        if tag == "syntax":
            v("parse_syntax_error_for_member", f"parse({inp_str!r}) raised SyntaxError for a member of the language")
            return
        if sat is None or not unambiguous:
            return
        if sat and tag != "ok":
            v("parse_rejects_valid", f"parse({inp_str!r}) -> {tag}, but the input satisfies the constraint")
        elif (not sat) and tag != "semantic":
            v("parse_accepts_invalid", f"parse({inp_str!r}) -> {tag}, but the input violates the constraint")
        else:
            bump("api_parse_agreed")
        if tag == "ok":
            m = to_model(res)
            pv = validate_tree(m, grammar, "<start>")
            if pv or tree_yield(m) != inp_str:
                v("parse_tree_unfaithful", f"parse({inp_str!r}) -> {pv or 'yield differs'}")
        return

    if base_kind in ("repair", "mutate"):
        if not member or ref_tree is None:
            record["outcomes"].append([kind, i, "not_member"])
            return
        arg = ref_tree if rng.random() < 0.5 else inp_str
        timeout = rng.choice([1, 3, 0.5])
        if base_kind == "repair":
            tag, res = guarded(lambda: solver.repair(arg, fix_timeout_seconds=timeout), "repair")
        else:
            mn = rng.randint(1, 3)
            tag, res = guarded(
                lambda: solver.mutate(arg, min_mutations=mn, max_mutations=mn + rng.randint(0, 3), fix_timeout_seconds=timeout),
                "mutate",
            )
        if tag == "budget":
            return
        if tag in ("unknown", "exc"):
            unexpected(tag, res, base_kind)
            return
        if tag != "ok":
            v(f"{base_kind}_raised", f"{base_kind}({inp_str!r}) -> {tag}")
            return
        if base_kind == "repair":
            if not is_successful(res):
                record["outcomes"].append([kind, i, "repair", "nothing", sat])
                if sat is True and (unambiguous or arg is ref_tree) and not z3_trouble():
                    v("repair_gives_up_on_valid_input", f"repair({inp_str!r}) returned Nothing for an input that satisfies the constraint")
                return
            out_tree = res.unwrap()
        else:
            out_tree = res
        if not isinstance(out_tree, DerivationTree):
            v(f"{base_kind}_bad_type", f"{base_kind} returned {type(out_tree).__name__}")
            return
        out_str = str(out_tree)
        record["outcomes"].append([kind, i, base_kind, out_str[:80], sat])
        # (for an ambiguous string passed as text ISLa may parse a different tree than
        # the one the verdict `sat` was computed for: judged only if the tree itself
        # was passed, or the string has one parse)
        if base_kind == "repair" and sat is True and (unambiguous or arg is ref_tree):
            if out_str == inp_str:
                bump("api_repair_identity")
                return
            if not z3_trouble():
                v("repair_changes_valid_input", f"repair({inp_str!r}) -> {out_str!r} although the input already satisfies the constraint")
                return
            # a Z3 query inside this call was not decided: repair() could not establish
            # that the input is valid already; what it returns instead must still be valid
            bump("api_repair_changed_valid_input_under_z3_trouble")
        m = to_model(out_tree)
        pv = None if not is_closed(m) else validate_tree(m, grammar, "<start>")
        if not is_closed(m) or pv:
            v(f"{base_kind}_result_not_a_valid_tree", f"{base_kind}({inp_str!r}) -> {out_str!r}: {pv or 'open tree'}")
            return
        verdict = oracle_verdict(out_tree, sc)
        if verdict is False:
            v(f"{base_kind}_result_violates_constraint", f"{base_kind}({inp_str!r}) -> {out_str!r} violates {sc['formula_text'][:200]}")
        elif verdict is True:
            bump(f"api_{base_kind}_result_verified")
        return
