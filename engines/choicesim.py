"""choicesim: PRNG-driven helpers under adversarial random-choice strategies.

C12: GrammarFuzzer / GrammarCoverageFuzzer.expand_tree on open trees, Mutator.mutate
     on closed trees -- "for every random choice": the PRNG sits behind the seam and is
     driven by uniform / always_first / always_last / alternate / biased strategies.
C14: create_fixed_length_tree (keeps one *random* terminal alternative per leaf) and
     count completion (COUNT_PREDICATE on partial trees).

One run = one grammar, a batch of cases, each case under its own PRNG strategy/seed
and its own deterministic work cap.
"""

import hashlib
import random
from typing import Any, Dict, List, Optional, Tuple

from gen.grammars import grammar_features, make_grammar
from oracles import grammar as og
from oracles.grammar import MNode, is_closed, is_nt, iter_nodes, to_model, tree_yield, validate_tree
from sim.seams import EventLog, SimBudgetExceeded, SimRandom, WorkCounter, install_prng
from sim.world import Quiet, exception_signature

ENGINE = "choicesim"
STRATS = ["uniform", "uniform", "uniform", "always_first", "always_last", "alternate", "low_biased", "high_biased"]


def warm():
    import isla.solver  # noqa
    import isla.mutator  # noqa


def make_plan(run_seed: int, profile: Dict[str, Any]) -> Dict[str, Any]:
    rng = random.Random(run_seed)
    family, grammar = make_grammar(rng)
    # A second grammar of the same family: same nonterminal names, different
    # expansions.  Cases alternate between the two, so that helper objects for
    # different grammars share the process (and its global caches).
    grammars = [grammar]
    if rng.random() < 0.5:
        for _ in range(5):
            _, g2 = make_grammar(rng, family)
            if g2 != grammar:
                grammars.append(g2)
                break
    focus = profile.get("focus", "both")
    kinds = []
    if focus in ("C12", "both"):
        kinds += ["expand_plain", "expand_cov", "mutate", "mutate"]
    if focus in ("C14", "both"):
        kinds += ["fixed_length", "fixed_length", "count", "numeric_value"]
    cases = []
    for _ in range(profile.get("cases", 24)):
        cases.append(
            {
                "kind": rng.choice(kinds),
                "seed": rng.randrange(1 << 30),
                "strategy": rng.choice(STRATS),
                "prng_seed": rng.randrange(1 << 30),
                "g": rng.randrange(len(grammars)),
            }
        )
    return {"engine": ENGINE, "run_seed": run_seed, "phase": "choices", "family": family,
            "grammar": grammar, "grammars": grammars, "ops": cases, "faults": [], "case_work": profile.get("case_work", 600_000)}


# ------------------------------------------------------------------------- input trees


def derive_model(g, nt: str, rng: random.Random, depth: int, ids: List[int]) -> MNode:
    """Own random derivation -> closed model tree (ids assigned from a private range)."""
    can = og.canonical(g)
    cost = _min_depth(g)

    def rec(sym: str, d: int) -> MNode:
        ids[0] += 1
        my_id = ids[0]
        if not is_nt(sym):
            return MNode(sym, my_id, ())
        alts = can[sym]
        if d <= 0:
            alt = min(alts, key=lambda a: max([cost[s] for s in a if is_nt(s)] or [0]))
        else:
            alt = rng.choice(alts)
        if not alt:
            ids[0] += 1
            return MNode(sym, my_id, (MNode("", ids[0], ()),))
        return MNode(sym, my_id, tuple(rec(s, d - 1) for s in alt))

    return rec(nt, depth)


def _min_depth(g) -> Dict[str, int]:
    can = og.canonical(g)
    cost: Dict[str, int] = {}
    changed = True
    while changed:
        changed = False
        for m, alts in can.items():
            best = None
            for alt in alts:
                try:
                    d = 1 + max([cost[s] for s in alt if is_nt(s)] or [0])
                except KeyError:
                    continue
                best = d if best is None else min(best, d)
            if best is not None and (m not in cost or best < cost[m]):
                cost[m] = best
                changed = True
    return cost


def prune(m: MNode, rng: random.Random, k: int) -> MNode:
    """Cuts k random nonterminal subtrees back to open leaves (ids kept)."""
    nts = [p for p, n in iter_nodes(m) if is_nt(n.label)]
    cut = set()
    for _ in range(k):
        cut.add(rng.choice(nts))

    def rec(n: MNode, path) -> MNode:
        if path in cut:
            return MNode(n.label, n.id, None)
        if n.children is None:
            return n
        return MNode(n.label, n.id, tuple(rec(c, path + (i,)) for i, c in enumerate(n.children)))

    return rec(m, ())


def to_isla(m: MNode):
    from isla.derivation_tree import DerivationTree

    def rec(n: MNode):
        return DerivationTree(n.label, None if n.children is None else [rec(c) for c in n.children], id=n.id)

    return rec(m)


# ------------------------------------------------------------------------- cases


def check_expansion(before: MNode, after: MNode, grammar) -> Optional[str]:
    from engines.solversim import check_expansion as ce

    return ce(before, after, grammar)


def run_case(case, g, graph, counters, state=None) -> Optional[Dict[str, Any]]:
    """Returns a violation dict or None."""
    from isla.fuzzer import GrammarCoverageFuzzer, GrammarFuzzer
    from isla.helpers import canonical
    from isla.mutator import Mutator
    from isla.solver import create_fixed_length_tree

    rng = random.Random(case["seed"])
    kind = case["kind"]
    nts = [nt for nt in g]
    # private id range far above DerivationTree.next_id so that ids never collide
    ids = [10_000_000 + rng.randrange(1000) * 1000]

    def viol(prop, clause, detail):
        return {"property": prop, "clause": clause, "detail": detail[:500], "case": case}

    if kind in ("expand_plain", "expand_cov"):
        root = rng.choice(["<start>", "<start>", rng.choice(nts)])
        closed = derive_model(g, root, rng, rng.randint(1, 6), ids)
        if sum(1 for _ in iter_nodes(closed)) > 400:
            return None
        before = prune(closed, rng, rng.randint(1, 4))
        if rng.random() < 0.35:
            # the parsers' representation of an epsilon expansion: a nonterminal with no
            # child at all (the fuzzer's is one child labelled ""); such a node is
            # expanded, not open
            for _, n in iter_nodes(before):
                if n.children is not None and len(n.children) == 1 and n.children[0].label == "" and is_nt(n.label):
                    n.children = ()
                    counters["parser_style_epsilon_nodes"] = counters.get("parser_style_epsilon_nodes", 0) + 1
        tree = to_isla(before)
        if kind == "expand_plain":
            mn = rng.choice([0, 0, 2, 5])
            fz = GrammarFuzzer(g, min_nonterminals=mn, max_nonterminals=mn + rng.choice([1, 5, 10]))
        else:
            fz = GrammarCoverageFuzzer(g)
            if rng.random() < 0.5:
                # pre-populated coverage: a previous run of the same fuzzer object
                fz.expand_tree(to_isla(MNode("<start>", ids[0] + 500_000, None)))
        result = fz.expand_tree(tree)
        counters[kind] = counters.get(kind, 0) + 1
        after = to_model(result)
        if to_model_full(tree) != full(before):
            return viol("C12", "expand_tree_mutated_input", "input tree changed")
        problem = check_expansion(before, after, g)
        if problem:
            return viol("C12", "expand_tree_" + kind, f"{problem}; input {tree_repr(before)}")
        return None

    if kind == "mutate":
        root = rng.choice(["<start>", "<start>", "<start>", rng.choice(nts)])
        closed = derive_model(g, root, rng, rng.randint(1, 6), ids)
        if sum(1 for _ in iter_nodes(closed)) > 300:
            return None
        tree = to_isla(closed)
        mn = rng.randint(1, 4)
        mut = Mutator(g, min_mutations=mn, max_mutations=mn + rng.randint(0, 3), graph=graph)
        result = mut.mutate(tree)
        counters["mutate"] = counters.get("mutate", 0) + 1
        after = to_model(result)
        if to_model_full(tree) != full(closed):
            return viol("C12", "mutate_mutated_input", "input tree changed")
        if after.label != closed.label:
            return viol("C12", "mutate_root_changed", f"{closed.label} -> {after.label}; input {tree_yield(closed)!r} result {tree_yield(after)!r}")
        if not is_closed(after):
            return viol("C12", "mutate_result_open", f"input {tree_yield(closed)!r}")
        v = validate_tree(after, g, closed.label, check_ids=True)
        if v:
            return viol("C12", "mutate_result_invalid", f"{v}; input {tree_yield(closed)!r} result {tree_yield(after)!r}")
        return None

    if kind == "fixed_length":
        nt = rng.choice(nts)
        n = rng.randint(0, 14)
        result = create_fixed_length_tree(nt, canonical(g), n)
        counters["fixed_length"] = counters.get("fixed_length", 0) + 1
        if result is None:
            counters["fixed_length_none"] = counters.get("fixed_length_none", 0) + 1
            return None
        m = to_model(result)
        if not is_closed(m):
            return viol("C14", "fixed_length_open", f"{nt} n={n}")
        v = validate_tree(m, g, nt, check_ids=True)
        if v:
            return viol("C14", "fixed_length_invalid_tree", f"{nt} n={n}: {v}")
        y = tree_yield(m)
        if len(y) != n or len(str(result)) != n:
            return viol("C14", "fixed_length_wrong_length", f"create_fixed_length_tree({nt}, n={n}) -> {y!r} (length {len(y)})")
        counters["fixed_length_built"] = counters.get("fixed_length_built", 0) + 1
        return None

    if kind == "numeric_value":
        # numeric model value parsing (solver.py: extract_model_value_int_var): the tree
        # ISLa builds for an integer that Z3 chose for a numeric nonterminal.  One solver
        # object per grammar of the run; the second one is, half of the time, a copy of the
        # first made by copy_without_queue(grammar=...), i.e. the two share what copies share.
        import z3
        from isla import language
        from isla.solver import ISLaSolver
        from isla.z3_helpers import z3_eq
        from oracles.targets import judge_numeric
        from returns.maybe import Some
        from sim.seams import EventLog as _EL, Z3Seam

        can = og.canonical(g)
        r = og.reach(g)

        def numeric(nt):
            terms = [t for m in [nt] + sorted(r.get(nt, ())) for alt in can[m] for t in alt if not is_nt(t)]
            return nt != "<start>" and any(c.isdigit() for t in terms for c in t) and all(c in "0123456789+-" for t in terms for c in t)

        cands = [nt for nt in nts if numeric(nt)]
        if not cands or state is None:
            return None
        nt = rng.choice(cands)
        gi = state["gi"]
        seam = Z3Seam(_EL(), None, faults=[])
        undo_z3 = seam.install()
        try:
            if gi not in state["solvers"]:
                others = [k for k in state["solvers"]]
                if others and rng.random() < 0.5:
                    state["solvers"][gi] = state["solvers"][others[0]].copy_without_queue(grammar=Some(g))
                    counters["numeric_value_derived_solver"] = counters.get("numeric_value_derived_solver", 0) + 1
                else:
                    state["solvers"][gi] = ISLaSolver(g)
            solver = state["solvers"][gi]
            value = rng.choice([0, 1, 2, 5, 7, 9, 10, 17, 42, 99, 100, 255, 1000, -1, -7, -42])
            var = language.Variable("i", nt)
            zi = z3.Int("i_0")
            zs = z3.Solver()
            zs.add(z3_eq(zi, z3.IntVal(value)))  # (isla redefines == on Z3 terms as structural equality)
            if zs.check() != z3.sat:
                return None
            tree = solver.extract_model_value(var, zs.model(), {var: zi}, set(), {var})
        finally:
            undo_z3()
        counters["numeric_value_built"] = counters.get("numeric_value_built", 0) + 1
        problem = judge_numeric(g, nt, value, to_model(tree))
        if problem:
            return viol("C14", "numeric_value", f"extract_model_value({nt}, {value}) -> {str(tree)!r}: {problem}")
        return None

    if kind == "count":
        from isla.derivation_tree import DerivationTree
        from isla.isla_predicates import COUNT_PREDICATE

        r = og.reach(g)
        pairs = [(x, nd) for x in nts for nd in sorted(r.get(x, ())) if nd != x]
        if not pairs:
            return None
        root, needle = rng.choice(pairs)
        closed = derive_model(g, root, rng, rng.randint(1, 5), ids)
        if sum(1 for _ in iter_nodes(closed)) > 200:
            return None
        partial = prune(closed, rng, rng.randint(1, 3))
        have = sum(1 for _, nd in iter_nodes(partial) if nd.label == needle)
        k = have + rng.randint(0, 3)
        tree = to_isla(partial)
        res = COUNT_PREDICATE.evaluate(graph, tree, needle, DerivationTree(str(k), None))
        counters["count"] = counters.get("count", 0) + 1
        out = res.result
        if not isinstance(out, dict):
            return None
        counters["count_completion"] = counters.get("count_completion", 0) + 1
        if len(out) != 1:
            return viol("C14", "count_result_shape", f"{len(out)} bindings")
        (key, cand), = out.items()
        m = to_model(cand)
        from oracles.targets import judge_count

        problem = judge_count(g, partial.label, needle, k, m)
        if problem:
            return viol("C14", "count_completion", f"count({tree_repr(partial)}, {needle}, {k}) -> {tree_repr(m)}: {problem}")
        return None
    return None


def full(m: MNode):
    return (m.label, m.id, None if m.children is None else tuple(full(c) for c in m.children))


def to_model_full(t):
    return full(to_model(t))


def tree_repr(m: MNode) -> str:
    if m.children is None:
        return m.label
    if not m.children:
        return repr(m.label) if not is_nt(m.label) else m.label + "()"
    return m.label + "(" + " ".join(tree_repr(c) for c in m.children) + ")"


# ------------------------------------------------------------------------- execute


def execute(plan: Dict[str, Any]) -> Dict[str, Any]:
    import logging

    from grammar_graph import gg

    logging.disable(logging.CRITICAL)
    g = plan["grammar"]
    record: Dict[str, Any] = {"run_seed": plan["run_seed"], "phase": plan.get("phase"), "violations": [],
                              "inconclusive": [], "cases": 0}
    counters: Dict[str, int] = {}
    strategies: Dict[str, int] = {}
    h = hashlib.sha256()
    grammars = plan.get("grammars") or [g]
    graphs = [gg.GrammarGraph.from_grammar(x) for x in grammars]
    solvers: Dict[int, Any] = {}  # numeric_value cases: one ISLaSolver per grammar, possibly derived from another
    work = WorkCounter(cap=None)
    draws = 0
    with Quiet():
        work.install()
        try:
            for idx, case in enumerate(plan["ops"]):
                log = EventLog()
                rnd = SimRandom(case["prng_seed"], case["strategy"], log)
                undo = install_prng(rnd)
                work.extend(plan.get("case_work", 600_000))
                try:
                    gi = case.get("g", 0) % len(grammars)
                    v = run_case(case, grammars[gi], graphs[gi], counters, {"solvers": solvers, "grammars": grammars, "gi": gi})
                    if work.tripped:
                        record["inconclusive"].append(f"case_work_cap:{case['kind']}")
                        v = None
                    elif v is not None:
                        v["op_index"] = idx
                        v["features"] = grammar_features(grammars[gi])
                        v.setdefault("signature", {"type": "Oracle", "site": v["clause"], "message": "", "raw": ""})
                        record["violations"].append(v)
                except SimBudgetExceeded:
                    record["inconclusive"].append(f"case_work_cap:{case['kind']}")
                except RecursionError:
                    record["inconclusive"].append(f"recursion:{case['kind']}")
                except Exception as exc:
                    if work.tripped:
                        record["inconclusive"].append(f"case_work_cap:{case['kind']}")
                    else:
                        sig = exception_signature(exc)
                        prop = "C12" if case["kind"] in ("expand_plain", "expand_cov", "mutate") else "C14"
                        if case["kind"] == "numeric_value" and sig["type"] == "RuntimeError" and "Could not parse a numeric solution" in sig["raw"]:
                            # "no tree for this value": not judged by C14 (it is C02's known finding)
                            counters["numeric_value_none"] = counters.get("numeric_value_none", 0) + 1
                            continue
                        record["violations"].append(
                            {"property": prop, "clause": f"{case['kind']}_raises", "op_index": idx, "case": case, "signature": sig,
                             "features": grammar_features(grammars[case.get("g", 0) % len(grammars)]),
                             "detail": f"{case['kind']} raised {sig['type']} at {sig['site']}: {sig['raw']}"}
                        )
                finally:
                    undo()
                record["cases"] += 1
                strategies[case["strategy"]] = strategies.get(case["strategy"], 0) + 1
                draws += rnd.draws
                h.update(log.digest().encode())
        finally:
            work.uninstall()
    record["counters"] = counters
    record["strategies"] = strategies
    record["prng_draws"] = draws
    record["digest"] = h.hexdigest()[:16]
    return record
