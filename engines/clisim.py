"""clisim: the `isla` command line inside a per-run sandbox directory, in-process
(`isla.cli.main(*argv, stdout=, stderr=)`), under the clock / PRNG / Z3 seams and a
storage-fault layer that damages files *between* commands (C19).

One run = one scenario (grammar + 1-2 constraints), a script of commands and faults.
The oracle works on the recorded command history and on the bytes actually on disk.
"""

import hashlib
import io
import json
import os
import random
import shutil
import sys
import tempfile
import traceback
from typing import Any, Dict, List, Optional, Tuple

from gen.formulas import gen_formula
from gen.grammars import make_grammar, sample_word
from oracles import grammar as og
from oracles.grammar import Recognizer, count_parses, is_closed, to_model, tree_yield, validate_tree
from oracles.semantics import Abstain, print_formula, satisfies
from sim.seams import SimBudgetExceeded
from sim.world import World, exception_signature

ENGINE = "clisim"
FAMILIES = ["assgn", "assgn", "blocks", "csv", "config", "expr", "lenprefix", "lines", "lines", "random"]


def warm():
    import isla.cli  # noqa


# ------------------------------------------------------------------------- files


def bnf_escape(s: str) -> str:
    return (
        s.replace("\\", "\\\\").replace('"', '\\"').replace("\n", "\\n").replace("\t", "\\t").replace("\r", "\\r")
    )


def to_bnf(g) -> str:
    can = og.canonical(g)
    lines = []
    for nt, alts in can.items():
        parts = []
        for alt in alts:
            if not alt:
                parts.append('""')
            else:
                parts.append(" ".join(s if og.is_nt(s) else '"' + bnf_escape(s) + '"' for s in alt))
        lines.append(f"{nt} ::= " + " | ".join(parts))
    return "\n".join(lines) + "\n"


def to_py(g) -> str:
    return "grammar = " + repr(g) + "\n"


# ------------------------------------------------------------------------- planning


def make_plan(run_seed: int, profile: Dict[str, Any]) -> Dict[str, Any]:
    rng = random.Random(run_seed)
    for _ in range(50):
        family, grammar = make_grammar(rng, rng.choice(FAMILIES))
        if not any("<" in t or ">" in t for alts in og.canonical(grammar).values() for alt in alts for t in alt if not og.is_nt(t)):
            break
    n_constraints = rng.choice([1, 1, 1, 2])
    formulas = [gen_formula(grammar, rng, family) for _ in range(n_constraints)]
    gfmt = rng.choice(["bnf", "bnf", "py", "arg"])
    # each constraint goes to a .isla file or a -c argument
    cfmt = [rng.choice(["file", "file", "arg"]) for _ in formulas]
    # a carriage return *inside a string literal* does not survive a text file (.isla files
    # are read with universal newlines, which is what lets ISLa read files with Windows
    # line ends at all): such a constraint is passed with -c
    cfmt = ["arg" if "\r" in print_formula(f) else c for f, c in zip(formulas, cfmt)]
    ops: List[List[Any]] = []
    n_cmds = rng.randint(2, profile.get("max_cmds", 6))
    for _ in range(n_cmds):
        r = rng.random()
        seed = rng.randrange(1 << 30)
        if r < 0.28:
            ops.append(["solve", seed])
        elif r < 0.55:
            ops.append(["check", seed])
        elif r < 0.68:
            ops.append(["parse", seed])
        elif r < 0.76:
            ops.append(["repair", seed])
        elif r < 0.82:
            ops.append(["mutate", seed])
        elif r < 0.88:
            ops.append(["usage", seed])
        elif r < 0.93:
            ops.append(["malformed", seed])
        elif r < 0.965:
            ops.append(["fuzz", seed])
        else:
            ops.append(["find", seed])
    if not any(o[0] == "solve" for o in ops):
        ops.insert(0, ["solve", rng.randrange(1 << 30)])
    return {
        "engine": ENGINE, "run_seed": run_seed, "phase": "dry", "family": family, "grammar": grammar,
        "formulas": formulas, "formula_texts": [print_formula(f) for f in formulas],
        "grammar_format": gfmt, "constraint_formats": cfmt,
        "ops": ops, "faults": [],
        "prng": {"strategy": rng.choice(["uniform"] * 5 + ["low_biased", "high_biased"]), "seed": rng.randrange(1 << 30)},
        "clock": {"epoch": rng.choice([1_700_000_000.25, 0.0, 4_102_444_800.9]), "c_call": rng.choice([1.1e-6, 1.1e-6, 1.1e-5])},
        "caps": {"op_work": profile.get("op_work", 1_200_000), "total_work": profile.get("total_work", 10_000_000)},
    }


WITH_VALUE = {"--grammar", "-g", "--constraint", "-c", "--input-string", "-i", "-n", "--num-solutions", "-d", "--output-dir",
              "-f", "--free-instantiations", "-s", "--smt-instantiations", "-t", "--timeout", "-k", "-w", "--weight-vector",
              "-o", "--output-file", "-x", "--min-mutations", "-X", "--max-mutations", "-l", "--log-level", "--unwinding-depth"}
# (the TEST_TARGET of `fuzz` is a positional and is kept in front of the files)
NO_VALUE = {"--tree", "-T", "--pretty-print", "--no-pretty-print", "-p", "--unique-trees", "--unsat-support"}

FS_FAULTS = ["fs_empty", "fs_truncate", "fs_missing", "fs_is_dir", "fs_garbage", "fs_trailing_newline", "fs_crlf",
             "fs_duplicate_input", "fs_bom", "fs_nul"]


def followup(plan: Dict[str, Any], record: Dict[str, Any]) -> Optional[Dict[str, Any]]:
    """Second phase: same script with storage / Z3 / clock faults."""
    if plan.get("phase") != "dry" or plan.get("no_followup"):
        return None
    rng = random.Random(plan["run_seed"] * 104729 + 7)
    if rng.random() < 0.25:
        return None
    counts = record.get("seam_counts", {})
    faults = []
    n_cmds = len(plan["ops"])
    for _ in range(rng.choice([1, 1, 2, 3])):
        r = rng.random()
        if r < 0.6:
            faults.append({"kind": rng.choice(FS_FAULTS), "before_cmd": rng.randrange(n_cmds),
                           "target": rng.choice(["input", "input", "input", "grammar", "constraint"]), "arg": rng.randrange(1 << 20)})
        elif r < 0.85 and counts.get("z3_calls"):
            faults.append({"kind": rng.choice(["z3_outage", "z3_outage", "z3_starved"]), "at_call": rng.randrange(counts["z3_calls"]), "len": rng.choice([25, 60, 400])})
        elif counts.get("clock_reads"):
            faults.append({"kind": "clk_jump_fwd", "at_read": rng.randrange(counts["clock_reads"] + 1), "delta": rng.choice([2.0, 30.0, 1e6])})
    if not faults:
        return None
    new = json.loads(json.dumps(plan))
    new["phase"] = "faulted"
    new["faults"] = faults
    return new


# ------------------------------------------------------------------------- sandbox


class Sandbox:
    def __init__(self, plan):
        self.dir = tempfile.mkdtemp(prefix="islacli_")
        self.home = os.path.join(self.dir, "home")
        self.cwd = os.path.join(self.dir, "work")
        os.makedirs(self.home)
        os.makedirs(self.cwd)
        self.old_cwd = os.getcwd()
        self.old_home = os.environ.get("HOME")
        os.environ["HOME"] = self.home
        os.chdir(self.cwd)
        self.counter = 0

    def path(self, name: str) -> str:
        return os.path.join(self.cwd, name)

    def write(self, name: str, data, mode="w") -> str:
        p = self.path(name)
        if "b" in mode:
            with open(p, "wb") as f:
                f.write(data)
        else:
            with open(p, "w", encoding="utf-8", newline="") as f:
                f.write(data)
        return p

    def fresh(self, stem: str, ext: str) -> str:
        self.counter += 1
        return f"{stem}{self.counter}{ext}"

    def close(self):
        os.chdir(self.old_cwd)
        if self.old_home is None:
            os.environ.pop("HOME", None)
        else:
            os.environ["HOME"] = self.old_home
        shutil.rmtree(self.dir, ignore_errors=True)


def apply_fs_fault(kind: str, path: str, arg: int) -> bool:
    """Damages a file the way a torn / lost / foreign write would.  Returns True if
    something was changed."""
    if not os.path.lexists(path):
        return False
    if os.path.isdir(path):
        return False
    with open(path, "rb") as f:
        data = f.read()
    if kind == "fs_empty":
        new = b""
    elif kind == "fs_truncate":
        if len(data) < 2:
            return False
        new = data[: 1 + arg % (len(data) - 1)]
    elif kind == "fs_missing":
        os.remove(path)
        return True
    elif kind == "fs_is_dir":
        os.remove(path)
        os.mkdir(path)
        return True
    elif kind == "fs_garbage":
        i = arg % (len(data) + 1)
        new = data[:i] + bytes([0xFF, 0xFE, 0x80 + arg % 64]) + data[i:]
    elif kind == "fs_trailing_newline":
        new = data + b"\n" * (1 + arg % 2)
    elif kind == "fs_crlf":
        new = data.replace(b"\n", b"\r\n") + (b"\r\n" if arg % 2 else b"")
    elif kind == "fs_bom":
        new = b"\xef\xbb\xbf" + data
    elif kind == "fs_nul":
        i = arg % (len(data) + 1)
        new = data[:i] + b"\x00" + data[i:]
    else:
        return False
    if new == data:
        return False
    with open(path, "wb") as f:
        f.write(new)
    return True


# ------------------------------------------------------------------------- execution


class Cli:
    def __init__(self, plan, world: World, record):
        self.plan = plan
        self.world = world
        self.record = record
        self.g = plan["grammar"]
        self.recog = Recognizer(self.g)
        self.sb = Sandbox(plan)
        self.viol = record["violations"]
        self.stats = record["stats"]
        self.solutions: List[str] = []
        self.files_damaged: Dict[str, str] = {}
        self.current_cmd = 0
        self.last_dup = False
        self.spec_args: List[str] = []
        self.grammar_file: Optional[str] = None
        self.constraint_files: List[str] = []
        self.write_spec()

    def write_spec(self):
        p = self.plan
        args: List[str] = []
        if p["grammar_format"] == "bnf":
            self.grammar_file = self.sb.write("grammar.bnf", to_bnf(self.g))
            args.append(self.grammar_file)
        elif p["grammar_format"] == "py":
            self.grammar_file = self.sb.write("grammar.py", to_py(self.g))
            args.append(self.grammar_file)
        else:
            args += ["--grammar", to_bnf(self.g)]
        for i, (txt, fmt) in enumerate(zip(p["formula_texts"], p["constraint_formats"])):
            if fmt == "file":
                f = self.sb.write(f"constraint{i}.isla", txt + "\n")
                self.constraint_files.append(f)
                args.append(f)
            else:
                args += ["--constraint", txt]
        self.spec_args = args

    def bump(self, k, n=1):
        self.stats[k] = self.stats.get(k, 0) + n

    def v(self, clause, detail, op_index, sig=None):
        from gen.formulas import features_with_grammar

        d = {"property": "C19", "clause": clause, "op_index": op_index, "detail": detail[:500],
             "features": sorted({ft for f in self.plan["formulas"] for ft in features_with_grammar(f, self.g)})}
        d["signature"] = sig or {"type": "Oracle", "site": clause, "message": "", "raw": ""}
        self.viol.append(d)

    # --- running one command in-process
    def run(self, argv: List[str], op_index: int) -> Tuple[Optional[int], str, str, Optional[BaseException]]:
        import logging

        import isla.cli

        # argparse does not accept positionals (FILES) interleaved with options:
        # options first, then all files -- the way the documentation invokes isla
        opts: List[str] = []
        files: List[str] = []
        i = 1
        while i < len(argv):
            a = argv[i]
            if a in WITH_VALUE and i + 1 < len(argv):
                opts += [a, argv[i + 1]]
                i += 2
            elif a in NO_VALUE:
                opts.append(a)
                i += 1
            else:
                files.append(a)
                i += 1
        argv = [argv[0]] + opts + files

        isla.cli.read_isla_rc_defaults.cache_clear()
        root = logging.getLogger()
        for h in list(root.handlers):
            root.removeHandler(h)
        out, err = io.StringIO(), io.StringIO()
        self.world.work.extend(self.world.op_work)
        code: Optional[int] = None
        exc: Optional[BaseException] = None
        try:
            isla.cli.main(*argv, stdout=out, stderr=err)
            code = 0
        except SystemExit as e:
            c = e.code
            code = 0 if c is None else (c if isinstance(c, int) else 1)
        except SimBudgetExceeded:
            code = None
        except BaseException as e:  # an uncaught traceback in a real process
            if type(e).__name__ == "SimBackstop":
                raise
            exc = e
        finally:
            import gc

            gc.collect()  # closes argparse.FileType handles
        if self.world.work.tripped:
            self.record["inconclusive"].append(f"op_work_cap:{argv[0]}:{op_index}")
            self.record["outcomes"].append([argv[0], "budget"])
            return None, "", "", None
        self.bump("commands")
        self.bump("cmd_" + argv[0])
        if exc is not None:
            sig = exception_signature(exc)
            self.v("uncaught_traceback", f"isla {' '.join(a if len(a) < 60 else a[:57] + '...' for a in argv)}: {sig['type']} at {sig['site']}: {sig['raw']}", op_index, sig)
            self.record["outcomes"].append([argv[0], "traceback", sig["type"], sig["site"]])
            return None, out.getvalue(), err.getvalue(), exc
        self.record["outcomes"].append([argv[0], code, len(out.getvalue()), len(err.getvalue())])
        self.validate_stub(argv, code, out.getvalue(), op_index)
        if code not in (0, 1, 2, 65):
            self.v("unexpected_exit_code", f"isla {argv[0]} exited with {code}", op_index)
        return code, out.getvalue(), err.getvalue(), None

    def frozen_work(self):
        """Waiting for a real child process takes a number of Python-level steps that
        depends on pipe timing: the work counter (and with it the virtual clock) is frozen
        meanwhile, so that the run stays a pure function of its plan."""
        import contextlib

        w = self.world.work

        @contextlib.contextmanager
        def cm():
            saved = (w.count, w.cap, w.tripped, w.next_raise)
            w.cap = None
            try:
                yield
            finally:
                w.count, w.cap, w.tripped, w.next_raise = saved

        return cm()

    def validate_stub(self, argv: List[str], code: int, out: str, op_index: int):
        """The process boundary is stubbed (in-process `main`).  For a deterministic
        sample of the read-only commands of fault-free sessions the same command line is
        also executed as a real `python -m isla` process in the same directory, and exit
        status and stdout are compared.  Information for the evidence file only (the real
        process has a real clock and real Z3 timeouts): never a verdict, not part of the
        run digest."""
        if self.plan.get("phase") != "dry" or argv[0] not in ("check", "find") or self.world.z3.natural_unknown:
            return
        self.stub_cmds = getattr(self, "stub_cmds", 0) + 1
        if (self.plan["run_seed"] * 31 + self.stub_cmds * 7) % 9 != 0:
            return
        import subprocess

        env = dict(os.environ, PYTHONWARNINGS="ignore")
        alt = env.get("VERIF_REPO_SRC")
        if alt:
            env["PYTHONPATH"] = alt
        else:
            env.pop("PYTHONPATH", None)
        with self.frozen_work():
            try:
                p = subprocess.run([sys.executable, "-W", "ignore", "-m", "isla"] + argv, capture_output=True, timeout=90, env=env, cwd=os.getcwd())
            except Exception:
                self.bump("stub_validation_subprocess_lost")
                return
        same = p.returncode == code and p.stdout.decode("utf-8", "replace") == out
        self.bump("stub_validation_agree" if same else "stub_validation_disagree")
        if not same:
            self.record.setdefault("stub_disagreements", []).append(
                {"argv": [a if len(a) < 80 else a[:77] + "..." for a in argv], "in_process": [code, out[:80]], "real_process": [p.returncode, p.stdout.decode("utf-8", "replace")[:80], p.stderr.decode("utf-8", "replace")[-160:]]})

    # --- oracle helpers
    def verdict(self, s: str) -> Tuple[bool, Optional[bool]]:
        """(member, satisfies-all-constraints | None=abstain)"""
        if len(s) > 200:
            return self.recog.member(s), None
        member = self.recog.member(s)
        if not member:
            return False, None
        if count_parses(self.g, s, "<start>", cap=2) != 1:
            return True, None
        from isla.derivation_tree import DerivationTree
        from isla.parser import EarleyParser

        try:
            tree = DerivationTree.from_parse_tree(next(EarleyParser(self.g).parse(s)))
        except Exception:
            return True, None
        m = to_model(tree)
        if validate_tree(m, self.g, "<start>") or tree_yield(m) != s:
            return True, None
        try:
            return True, all(satisfies(m, f)[0] for f in self.plan["formulas"])
        except (Abstain, RecursionError):
            return True, None

    def spec_intact(self) -> bool:
        return not any(f in self.files_damaged for f in [self.grammar_file] + self.constraint_files if f)

    def make_input(self, rng: random.Random) -> str:
        from engines.apiops import edit_string

        r = rng.random()
        if self.solutions and r < 0.45:
            return rng.choice(self.solutions)
        if self.solutions and r < 0.7:
            return edit_string(rng.choice(self.solutions), rng)
        w = sample_word(self.g, "<start>", rng, max_depth=6)
        if w is None or len(w) > 100:
            w = "x"
        return w if rng.random() < 0.8 else edit_string(w, rng)

    def input_args(self, s: str, rng: random.Random) -> Tuple[List[str], Optional[str]]:
        """Passes an input string either via -i or via a file (written without a
        trailing newline)."""
        self.last_dup = False
        pending = [f for f in self.plan["faults"] if f["kind"].startswith("fs_") and f.get("target") == "input"
                   and f.get("before_cmd") == self.current_cmd and not f.get("_used")]
        if s != "" and not s.startswith("-") and rng.random() < 0.4 and not pending:
            return ["--input-string", s], None
        name = self.sb.fresh("input", rng.choice([".txt", ".in", ""]))
        data = s.encode("utf-8", "surrogateescape")
        if rng.random() < 0.2:
            data += b"\n"  # saved by an editor that terminates the last line
        p = self.sb.write(name, data, mode="wb")
        # storage faults on the input land between the write and the command
        for f in pending:
            f["_used"] = True
            fired = self.record.setdefault("fs_fired", {})
            if f["kind"] == "fs_duplicate_input":
                p2 = self.sb.write(self.sb.fresh("input", ".txt"), s.encode("utf-8", "surrogateescape"), mode="wb")
                self.last_dup = True
                fired[f["kind"]] = fired.get(f["kind"], 0) + 1
                self.world.log.add("fsfault", f["kind"])
                return [p, p2], p
            if apply_fs_fault(f["kind"], p, f["arg"]):
                fired[f["kind"]] = fired.get(f["kind"], 0) + 1
                self.world.log.add("fsfault", f["kind"], os.path.basename(p))
        return [p], p

    def expected_check(self, s: str) -> Optional[int]:
        member, sat = self.verdict(s)
        if not member:
            return 1
        if sat is None:
            return None
        return 0 if sat else 1

    # --- operations
    def op_solve(self, seed: int, op_index: int):
        rng = random.Random(seed)
        n = rng.choice([1, 2, 3, 5])
        argv = ["solve"] + self.spec_args + ["-n", str(n)]
        outdir = None
        tree = rng.random() < 0.25
        if rng.random() < 0.35:
            outdir = self.sb.path(self.sb.fresh("out", ""))
            os.mkdir(outdir)
            argv += ["-d", outdir]
        if tree:
            argv += ["--tree"]
            if rng.random() < 0.5:
                argv += [rng.choice(["--pretty-print", "--no-pretty-print", "-p"])]
        if rng.random() < 0.5:
            argv += ["-f", str(rng.choice([1, 2, 5])), "-s", str(rng.choice([1, 2, 5]))]
        if rng.random() < 0.3:
            argv += ["-t", str(rng.choice([1, 3, 10]))]
        if rng.random() < 0.2:
            argv += ["--unique-trees"]
        if rng.random() < 0.15:
            argv += ["--unsat-support"]
        if rng.random() < 0.3:
            argv += ["-k", str(rng.choice([1, 2, 3, 4])), "-w", ",".join(str(rng.choice([0, 1, 2, 6.5, 19])) for _ in range(5))]
        code, out, err, exc = self.run(argv, op_index)
        if code is None:
            return
        if not self.spec_intact():
            return
        if code != 0:
            # `solve` reports solver exceptions with exit code 1 and a message
            if code == 1 and "error" in err:
                self.bump("solve_reported_error")
                return
            self.v("solve_exit_code", f"isla solve exited with {code}; stderr: {err[-200:]!r}", op_index)
            return
        sols: List[str] = []
        if outdir is not None:
            for name in sorted(os.listdir(outdir)):
                with open(os.path.join(outdir, name), "rb") as f:
                    sols.append(f.read().decode("utf-8", "surrogateescape"))
        else:
            body = out[:-1] if out.endswith("\n") else out
            if not body:
                sols = []
            elif tree:
                dec = json.JSONDecoder()
                i = 0
                try:
                    while i < len(body):
                        while i < len(body) and body[i] in " \n\r\t":
                            i += 1
                        if i >= len(body):
                            break
                        obj, j = dec.raw_decode(body, i)
                        sols.append(json.dumps(obj))
                        i = j
                except ValueError:
                    self.v("solve_tree_output_not_json", f"stdout is not a sequence of JSON documents: {body[:120]!r}", op_index)
                    return
            elif n == 1 or not any("\n" in t for alts in og.canonical(self.g).values() for alt in alts for t in alt):
                sols = body.split("\n") if n != 1 else [body]
            else:
                return  # ambiguous framing of multi-line solutions on stdout: not judged
        for s in sols:
            self.bump("solutions")
            if tree:
                text = self.json_tree_string(s, op_index)
                if text is None:
                    continue
            else:
                text = s
            member, sat = self.verdict(text)
            if not member:
                self.v("solve_output_not_in_language", f"solve printed {text[:120]!r}", op_index)
                continue
            if sat is False:
                self.v("solve_output_violates_constraint", f"solve printed {text[:120]!r}; constraints {self.plan['formula_texts']}", op_index,
                       {"type": "Oracle", "site": "solve_output_violates_constraint", "message": "", "raw": ""})
                continue
            self.solutions.append(text)
            # every printed input is accepted by `isla check`
            if rng.random() < 0.7:
                if tree:
                    p = self.sb.write(self.sb.fresh("soltree", ".json"), s)
                    iargs = [p]
                else:
                    iargs, ipath = self.input_args(text, rng)
                    if ipath is not None:
                        damaged = self.last_dup or not os.path.isfile(ipath)
                        if not damaged:
                            with open(ipath, "rb") as f:
                                damaged = f.read() != text.encode("utf-8", "surrogateescape")
                        if damaged:
                            # a storage fault hit this file: judged like any other input
                            c2, o2, e2, x2 = self.run(["check"] + self.spec_args + iargs, op_index)
                            self.judge_check(c2, o2 + " | stderr: " + e2[-200:], text, ipath, op_index, "check")
                            continue
                c2, o2, e2, x2 = self.run(["check"] + self.spec_args + iargs, op_index)
                if c2 is not None and c2 != 0 and not self.z3_trouble_since(0):
                    self.v("check_rejects_solve_output", f"isla check exited {c2} ({o2.strip()[:80]!r}) for {text[:100]!r} printed by isla solve", op_index)
                elif c2 == 0:
                    self.bump("solve_output_accepted_by_check")

    def json_tree_string(self, s: str, op_index: int) -> Optional[str]:
        try:
            obj = json.loads(s)

            def conv(o):
                label, ch = o
                return og.MNode(label, None, None if ch is None else [conv(c) for c in ch])

            m = conv(obj)
        except Exception as e:
            self.v("tree_output_malformed", f"{type(e).__name__}: {s[:100]!r}", op_index)
            return None
        if not is_closed(m) or validate_tree(m, self.g, "<start>", check_ids=False):
            self.v("tree_output_not_a_derivation_tree", f"{s[:150]!r}", op_index)
            return None
        return tree_yield(m)

    def z3_trouble_since(self, mark: int) -> bool:
        z = self.world.z3
        return sum(z.fired.values()) > 0 or z.natural_unknown > 0

    def op_check(self, seed: int, op_index: int):
        rng = random.Random(seed)
        s = self.make_input(rng)
        iargs, path = self.input_args(s, rng)
        self.pending_input = path
        code, out, err, exc = self.run(["check"] + self.spec_args + iargs, op_index)
        self.judge_check(code, out + " | stderr: " + err[-200:], s, path, op_index, "check")

    def judge_check(self, code, out, s, path, op_index, what):
        if code is None or not self.spec_intact():
            return
        if getattr(self, "last_dup", False):
            self.last_dup = False
            if code != 2:
                self.v("two_inputs_not_usage_error", f"two input files given, isla {what} exited {code}, expected 2", op_index)
            return
        contents = [s]
        if path is not None:
            if not os.path.isfile(path):
                if code != 2:
                    self.v("missing_input_not_usage_error", f"input file missing or a directory, exit {code}", op_index)
                return
            with open(path, "rb") as f:
                raw = f.read().decode("utf-8", "surrogateescape")
            # A file's final newline may or may not belong to the input: the input is
            # valid iff it is valid as is, or valid without exactly one final newline.
            contents = [raw] + ([raw[:-1]] if raw.endswith("\n") else [])
            # The content is read as the input as is if it is in the language, else
            # without its final newline (which then is the file's, not the input's).
        exp = {1}
        for c in contents:
            if self.recog.member(c) if len(c) <= 400 else False:
                e = self.expected_check(c)
                if e is None:
                    self.bump("check_abstained")
                    return
                exp = {e}
                break
        if code not in exp:
            if self.z3_trouble_since(0) and code == 1:
                self.bump("check_reject_under_z3_trouble")
                return
            self.v(f"{what}_exit_code", f"isla {what} exited {code} ({out.strip()[:280]!r}), expected {sorted(exp)} for input {contents[0][:100]!r}; constraints {self.plan['formula_texts']}", op_index)
        else:
            self.bump("check_agreed_%d" % code)

    def op_fuzz(self, seed: int, op_index: int):
        """`isla fuzz TEST_TARGET -d DIR`: the solver's outputs are passed to a (real, tiny)
        test target.  Judged: no traceback (in `run`)."""
        rng = random.Random(seed)
        n = rng.choice([1, 2, 3])
        outdir = self.sb.path(self.sb.fresh("fuzz", ""))
        os.mkdir(outdir)
        target = rng.choice(["cat {}", "cat {}", "true", "false", "test -s {}", "wc -c < {}", "echo no placeholder"])
        argv = ["fuzz", target] + self.spec_args + ["-d", outdir, "-n", str(n)]
        if rng.random() < 0.4:
            argv += ["-f", str(rng.choice([1, 2, 5])), "-s", str(rng.choice([1, 2, 5]))]
        if rng.random() < 0.3:
            argv += ["-t", str(rng.choice([1, 3, 10]))]
        import subprocess

        real_run = subprocess.run

        def run_target(*a, **k):
            with self.frozen_work():
                return real_run(*a, **k)

        subprocess.run = run_target  # the test target is a real child process
        try:
            code, out, err, exc = self.run(argv, op_index)
        finally:
            subprocess.run = real_run
        if code is None:
            return
        # C19 states nothing about fuzz beyond "no command ends with an uncaught
        # traceback" (judged in `run`); the rest is counted for the evidence only
        self.bump("fuzz_exit_%s" % code)
        self.bump("fuzz_inputs", sum(1 for name in os.listdir(outdir) if name.endswith("_input.txt")))

    def op_find(self, seed: int, op_index: int):
        rng = random.Random(seed)
        files = []
        verdicts = []
        for _ in range(rng.randint(1, 3)):
            s = self.make_input(rng)
            p = self.sb.write(self.sb.fresh("cand", ".txt"), s.encode("utf-8", "surrogateescape"), mode="wb")
            files.append(p)
            verdicts.append(self.expected_check(s))
        code, out, err, exc = self.run(["find"] + self.spec_args + files, op_index)
        if code is None or not self.spec_intact() or None in verdicts:
            return
        exp = 0 if 0 in verdicts else 1
        listed = [l for l in out.split("\n") if l.strip()]
        want = [p for p, vd in zip(files, verdicts) if vd == 0]
        if code != exp or sorted(listed) != sorted(want):
            if not self.z3_trouble_since(0):
                self.v("find_result", f"isla find exited {code} listing {listed}, expected {exp} listing {want}", op_index)

    def op_parse(self, seed: int, op_index: int):
        rng = random.Random(seed)
        s = self.make_input(rng)
        iargs, path = self.input_args(s, rng)
        argv = ["parse"] + self.spec_args + iargs
        outfile = None
        if rng.random() < 0.5:
            outfile = self.sb.path(self.sb.fresh("tree", ".json"))
            argv += ["-o", outfile]
        if rng.random() < 0.5:
            argv += [rng.choice(["--pretty-print", "--no-pretty-print"])]
        code, out, err, exc = self.run(argv, op_index)
        if code is None or not self.spec_intact():
            return
        self.judge_check(code, (out[:60] if code == 0 else out) + " | stderr: " + err[-200:], s, path, op_index, "parse")
        if code != 0:
            return
        text = None
        if outfile is not None:
            if not os.path.isfile(outfile):
                self.v("parse_no_output_file", "exit 0 but no output file", op_index)
                return
            with open(outfile, encoding="utf-8", errors="surrogateescape", newline="") as f:
                text = f.read()
        else:
            text = out
        y = self.json_tree_string(text, op_index)
        if y is None:
            return
        raw = s
        if path is not None and os.path.isfile(path):
            with open(path, "rb") as f:
                raw = f.read().decode("utf-8", "surrogateescape")
        allowed = {raw} | ({raw[:-1]} if raw.endswith("\n") else set())
        if y not in allowed:
            self.v("parse_tree_string_differs", f"tree yields {y[:80]!r}, input was {s[:80]!r}", op_index)
        # the emitted JSON tree is accepted by `isla check`
        p = outfile or self.sb.write(self.sb.fresh("tree", ".json"), text)
        c2, o2, e2, x2 = self.run(["check"] + self.spec_args + [p], op_index)
        if c2 is not None and c2 != 0 and not self.z3_trouble_since(0):
            self.v("check_rejects_parse_output", f"isla check exited {c2} for the JSON tree that isla parse emitted for {s[:80]!r}", op_index)
        elif c2 == 0:
            self.bump("parse_output_accepted_by_check")

    def op_repair_mutate(self, what: str, seed: int, op_index: int):
        rng = random.Random(seed)
        s = self.make_input(rng)
        iargs, path = self.input_args(s, rng)
        argv = [what] + self.spec_args + iargs + ["-t", str(rng.choice([0.5, 1, 3]))]
        outfile = None
        if rng.random() < 0.4:
            outfile = self.sb.path(self.sb.fresh("fixed", ".txt"))
            argv += ["-o", outfile]
        if what == "mutate":
            mn = rng.randint(1, 3)
            argv += ["-x", str(mn), "-X", str(mn + rng.randint(0, 2))]
        code, out, err, exc = self.run(argv, op_index)
        if code is None or not self.spec_intact():
            return
        member, sat = self.verdict(s)
        if not member and code == 0 and path is None:
            self.v(f"{what}_accepts_unparsable_input", f"exit 0 for {s[:80]!r}", op_index)
        if code == 0:
            if outfile is not None and os.path.isfile(outfile):
                with open(outfile, encoding="utf-8", errors="surrogateescape", newline="") as f:
                    res = f.read()
            else:
                res = out[:-1] if out.endswith("\n") else out
            m2, s2 = self.verdict(res)
            if not m2:
                self.v(f"{what}_output_not_in_language", f"{res[:100]!r}", op_index)
            elif s2 is False and not self.z3_trouble_since(0):
                self.v(f"{what}_output_violates_constraint", f"isla {what} printed {res[:100]!r} for input {s[:80]!r}", op_index)
            elif s2:
                self.bump(f"{what}_output_verified")

    def op_usage(self, seed: int, op_index: int):
        rng = random.Random(seed)
        kind = rng.choice(["no_grammar", "no_input", "two_inputs", "no_constraint_check"])
        cmd = rng.choice(["check", "parse", "repair", "mutate"])
        s = self.make_input(rng)
        if s.startswith("-"):
            s = "x"  # argparse would take it for an option
        if kind == "no_grammar":
            cargs = [a for a in self.constraint_files]
            cargs += [x for t, fmt in zip(self.plan["formula_texts"], self.plan["constraint_formats"]) if fmt == "arg" for x in ("--constraint", t)]
            c = rng.choice(["solve", cmd])
            argv = [c] + cargs + ([] if c == "solve" else ["--input-string", s or "x"])
        elif kind == "no_input":
            argv = [cmd] + self.spec_args
        elif kind == "two_inputs":
            p1 = self.sb.write(self.sb.fresh("a", ".txt"), s or "x")
            p2 = self.sb.write(self.sb.fresh("b", ".txt"), s or "x")
            argv = [cmd] + self.spec_args + [p1, p2]
        else:
            gargs = [self.grammar_file] if self.grammar_file else ["--grammar", to_bnf(self.g)]
            argv = [cmd] + gargs + ["--input-string", s or "x"]
        code, out, err, exc = self.run(argv, op_index)
        if code is None or not self.spec_intact():
            return
        self.bump("usage_" + kind)
        if code != 2:
            self.v("usage_error_exit_code", f"{kind}: isla {argv[0]} exited {code}, expected 2; stderr {err[-150:]!r}", op_index)
        elif not err.strip():
            self.v("usage_error_no_message", f"{kind}: exit 2 without a message", op_index)

    def op_malformed(self, seed: int, op_index: int):
        """Grammar / constraint malformed *by construction*."""
        rng = random.Random(seed)
        which = rng.choice(["grammar", "constraint"])
        cmd = rng.choice(["solve", "check", "parse", "repair", "mutate"])
        inp_for_tail = self.make_input(rng) or "x"
        if inp_for_tail.startswith("-"):
            inp_for_tail = "x"  # argparse would take it for an option
        tail = [] if cmd == "solve" else ["--input-string", inp_for_tail]
        if which == "grammar":
            bnf = to_bnf(self.g)
            bad = rng.choice([
                bnf.replace("::=", "=", 1),
                bnf + '<extra> ::= "unterminated\n',
                "<start> ::= \n",
                bnf.replace('"', "", 1) if bnf.count('"') % 2 == 0 else bnf + '"',
                "this is not a grammar\n",
                bnf + "<a> ::= <<>\n",
            ])
            if rng.random() < 0.5:
                p = self.sb.write(self.sb.fresh("bad", ".bnf"), bad)
                gargs = [p]
            else:
                gargs = ["--grammar", bad]
            cargs = [a for a in self.spec_args if a.endswith(".isla")]
            for t, fmt in zip(self.plan["formula_texts"], self.plan["constraint_formats"]):
                if fmt == "arg":
                    cargs += ["--constraint", t]
            argv = [cmd] + gargs + cargs + tail
        else:
            good = self.plan["formula_texts"][0]
            nt = next(iter(k for k in self.g if k != "<start>"))
            bad = rng.choice([
                good + " and (",
                "forall " + nt + " x in start (= x \"a\")",
                "(= <undefined-nonterminal> \"a\")",
                "forall " + nt + " x in start: (= x \"unterminated)",
                "forall " + nt + " x in start: nosuchpredicate(x, x)",
                "exists int: true",
                "§§§",
                "forall " + nt + " x in start: (= y \"a\")",
            ])
            gargs = [self.grammar_file] if self.grammar_file else ["--grammar", to_bnf(self.g)]
            if rng.random() < 0.5:
                p = self.sb.write(self.sb.fresh("bad", ".isla"), bad)
                argv = [cmd] + gargs + [p] + tail
            else:
                argv = [cmd] + gargs + ["--constraint", bad] + tail
        code, out, err, exc = self.run(argv, op_index)
        if code is None:
            return
        if any(a in self.files_damaged for a in argv):
            # another specification file of this command (grammar or constraint file) was
            # hit by a storage fault: a missing file is a usage error (exit 2) before the
            # malformed one is even read; not judged by this clause
            return
        self.bump("malformed_" + which)
        if code != 65:
            self.v("malformed_spec_exit_code", f"malformed {which} ({bad[-80:]!r}): isla {cmd} exited {code}, expected 65; stderr {err[-150:]!r}", op_index)
        elif not err.strip():
            self.v("malformed_spec_no_message", f"malformed {which}: exit 65 without an error message", op_index)

    def apply_faults_before(self, cmd_index: int):
        for f in self.plan["faults"]:
            if not f["kind"].startswith("fs_") or f.get("before_cmd") != cmd_index:
                continue
            target = f["target"]
            if target == "grammar":
                path = self.grammar_file
            elif target == "constraint":
                path = self.constraint_files[0] if self.constraint_files else None
            else:
                continue  # input faults are applied in input_args()
            if path is None:
                continue
            if f["kind"] == "fs_duplicate_input":
                continue
            if apply_fs_fault(f["kind"], path, f["arg"]):
                self.files_damaged[path] = f["kind"]
                self.world.log.add("fsfault", f["kind"], os.path.basename(path))
                fired = self.record.setdefault("fs_fired", {})
                fired[f["kind"]] = fired.get(f["kind"], 0) + 1


def execute(plan: Dict[str, Any]) -> Dict[str, Any]:
    world = World(plan)
    record: Dict[str, Any] = {"run_seed": plan["run_seed"], "phase": plan["phase"], "violations": [], "outcomes": [],
                              "inconclusive": [], "stats": {}}
    cli = None
    world.install()
    try:
        cli = Cli(plan, world, record)
        for idx, op in enumerate(plan["ops"]):
            cli.current_cmd = idx
            cli.apply_faults_before(idx)
            kind, seed = op[0], op[1]
            if kind == "solve":
                cli.op_solve(seed, idx)
            elif kind == "check":
                cli.op_check(seed, idx)
            elif kind == "parse":
                cli.op_parse(seed, idx)
            elif kind in ("repair", "mutate"):
                cli.op_repair_mutate(kind, seed, idx)
            elif kind == "usage":
                cli.op_usage(seed, idx)
            elif kind == "malformed":
                cli.op_malformed(seed, idx)
            elif kind == "find":
                cli.op_find(seed, idx)
            elif kind == "fuzz":
                cli.op_fuzz(seed, idx)
            # a damaged *input* file only concerns the command it was damaged for
    except SimBudgetExceeded:
        record["inconclusive"].append("total_work_cap")
    finally:
        world.uninstall()
        if cli is not None:
            cli.sb.close()
    record["seam_counts"] = world.seam_counts()
    fired = world.fired()
    for k, v in (record.get("fs_fired") or {}).items():
        fired[k] = fired.get(k, 0) + v
    record["fired"] = fired
    record["z3_results"] = world.z3.results
    record["virtual_s"] = round(world.clock.now_virtual(), 3)
    h = hashlib.sha256()
    h.update(world.log.digest().encode())
    h.update(repr(record["outcomes"]).encode())
    record["digest"] = h.hexdigest()[:16]
    record["events"] = world.log.n
    return record
