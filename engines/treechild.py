"""treesim restart child: a *fresh interpreter with another hash seed* that receives only
what was made durable -- pickled / JSON-encoded derivation trees -- plus the reference
models, decodes them and checks that the decoded trees are full citizens there:
same structure, ids and string as the model; equal (==, hash, structural hash, set
membership) to a tree built afresh from the same nodes; ids of nodes created afterwards
do not collide with loaded ones; path lookup / node search / trie agree after further
operations.

stdin: {"trees": [{"pickle": b64, "json": str, "model": [label, id, children|null]}]}
stdout: {"problems": [[clause, detail], ...], "checked": n}
"""

import base64
import json
import logging
import os
import pickle
import sys


def build(model, DerivationTree, keep_ids=True):
    label, id_, ch = model
    children = None if ch is None else [build(c, DerivationTree, keep_ids) for c in ch]
    return DerivationTree(label, children, id=id_ if keep_ids else None)


def walk(t):
    ch = t.children
    return [t.value, t.id, None if ch is None else [walk(c) for c in ch]]


def m_nodes(model, prefix=()):
    out = [(prefix, model)]
    if model[2]:
        for i, c in enumerate(model[2]):
            out.extend(m_nodes(c, prefix + (i,)))
    return out


def main():
    logging.disable(logging.CRITICAL)
    sys.setrecursionlimit(20000)
    job = json.loads(sys.stdin.read())
    from isla.derivation_tree import DerivationTree

    problems = []
    checked = 0

    def bad(clause, detail):
        if len(problems) < 5:
            problems.append([clause, str(detail)[:400]])

    loaded = []
    for k, item in enumerate(job["trees"]):
        model = item["model"]
        for how in ("pickle", "json"):
            try:
                if how == "pickle":
                    t = pickle.loads(base64.b64decode(item["pickle"]))
                else:
                    t = DerivationTree.from_json(item["json"])
            except Exception as exc:
                bad(f"restart_{how}_decode_raises", f"{type(exc).__name__}: {exc}")
                continue
            checked += 1
            if walk(t) != model:
                bad(f"restart_{how}_decoded_tree_differs", f"tree {k}: {json.dumps(walk(t))[:150]} vs model {json.dumps(model)[:150]}")
                continue
            loaded.append((how, k, t, model))

    # next_id must be beyond every loaded id *before* anything new is created
    all_ids = set()
    for _, _, t, model in loaded:
        all_ids |= {m[1] for _, m in m_nodes(model)}
    fresh_nodes = [DerivationTree("<a>", None) for _ in range(3)]
    for n in fresh_nodes:
        if n.id in all_ids:
            bad("restart_new_node_id_collides", f"a node created after loading got id {n.id}, which a loaded node already has")
            break

    for how, k, t, model in loaded:
        f = build(model, DerivationTree)  # same ids, built in this interpreter
        g = build(model, DerivationTree, keep_ids=False)  # structurally equal, own ids
        try:
            if not (t == f):
                bad(f"restart_{how}_not_equal_to_rebuilt_tree", f"tree {k}")
            if hash(t) != hash(f):
                bad(f"restart_{how}_hash_differs_from_equal_tree", f"tree {k}: decoded tree == rebuilt tree, but hash {hash(t)} != {hash(f)}")
            elif t not in {f}:
                bad(f"restart_{how}_set_membership", f"tree {k}: decoded tree not found in a set holding an equal tree")
            if not t.structurally_equal(g):
                bad(f"restart_{how}_not_structurally_equal", f"tree {k}")
            if t.structural_hash() != g.structural_hash():
                bad(f"restart_{how}_structural_hash_differs_from_equal_tree",
                    f"tree {k}: structurally equal trees, structural hashes {t.structural_hash()} != {g.structural_hash()}")
            if str(t) != str(f) or t.is_open() != f.is_open():
                bad(f"restart_{how}_string_or_openness", f"tree {k}: {str(t)!r} vs {str(f)!r}")
            nodes = m_nodes(model)
            if sorted(p for p, _ in t.paths()) != sorted(p for p, _ in nodes):
                bad(f"restart_{how}_paths", f"tree {k}")
            if len(list(t.trie().items())) != len(nodes):
                bad(f"restart_{how}_trie_items", f"tree {k}: {len(list(t.trie().items()))} trie entries, {len(nodes)} nodes")
            # carry on working with the loaded tree: put a new node below it
            leaves = [p for p, m in nodes if not m[2]]
            if leaves and len(nodes) <= 200:
                p = leaves[len(leaves) // 2]
                new = DerivationTree("<b>", [DerivationTree("zz", ())])
                t2 = t.replace_path(p, new)
                ids = [n.id for _, n in t2.paths()]
                if len(ids) != len(set(ids)):
                    dup = sorted(i for i in set(ids) if ids.count(i) > 1)
                    bad(f"restart_{how}_ids_collide_after_replace_path", f"tree {k}: ids {dup[:5]} occur twice after inserting a new node at {p}")
                else:
                    fp = t2.find_node(new)
                    if fp != p:
                        bad(f"restart_{how}_find_node_after_replace_path", f"tree {k}: new node inserted at {p}, find_node says {fp}")
        except Exception as exc:
            bad(f"restart_{how}_operation_raises", f"tree {k}: {type(exc).__name__}: {exc}")

    sys.stdout.write(json.dumps({"problems": problems, "checked": checked}))
    sys.stdout.flush()
    os._exit(0)


if __name__ == "__main__":
    main()
