"""formsim (C21): the formalizations shipped with ISLa (CSV, XML, reST, simple TAR),
solved under the simulated world with per-run variation of PRNG seed / strategy, cost
weights and k, fuzzer kind and instantiation limits; every solution is judged by
Oracle-G (own grammar model) and an independent domain validator
(oracles/domains.py: csv / expat / docutils / own checksum code).  ISLa's evaluator and
the projects' own validators (csv_lint, validate_xml, render_rst) are not used.
"""

import copy
import hashlib
import random
from typing import Any, Dict, List, Optional

from oracles.grammar import Recognizer, is_closed, to_model, tree_yield, validate_tree
from sim.seams import SimBudgetExceeded, SimCostComputer
from sim.world import Quiet, World, exception_signature

ENGINE = "formsim"

# centre of the settings: what the repository's own tests / evaluations use
CENTRES = {
    "csv": {"weights": [1, 0, 0, 0, 0], "k": 3, "free": 10, "smt": 5, "unique": False},
    "xml": {"weights": [9.5, 0, 6, 0, 13], "k": 4, "free": 1, "smt": 10, "unique": True},
    "rest": {"weights": [7, 1.5, 2.5, 2, 18], "k": 4, "free": 1, "smt": 1, "unique": True},
    "tar": {"weights": [6.5, 1, 4, 2, 19], "k": 3, "free": 1, "smt": 1, "unique": False},
}
# isla.solver._DEFAULTS / STD_COST_SETTINGS
LIBRARY_DEFAULTS = {"weights": [6.5, 1, 4, 2, 19], "k": 3, "free": 10, "smt": 10, "unique": False}


def warm():
    import isla_formalizations.csv  # noqa
    import isla_formalizations.rest  # noqa
    import isla_formalizations.simple_tar  # noqa
    import isla_formalizations.xml_lang  # noqa
    import oracles.domains  # noqa


def formalization(name: str, variant: str):
    """(grammar, formula, kwargs for ISLaSolver, validator-callable)"""
    from oracles import domains

    if name == "csv":
        from isla_formalizations import csv as m

        return m.CSV_GRAMMAR, m.CSV_COLNO_PROPERTY, {}, domains.validate_csv
    if name == "xml":
        from isla_formalizations import xml_lang as m

        if variant == "wellformed":
            return (m.XML_GRAMMAR_WITH_NAMESPACE_PREFIXES, m.XML_WELLFORMEDNESS_CONSTRAINT, {},
                    lambda s: domains.validate_xml(s, check_namespaces=False, check_attr_redef=False))
        if variant == "wellformed+noredef":
            return (m.XML_GRAMMAR_WITH_NAMESPACE_PREFIXES, m.XML_WELLFORMEDNESS_CONSTRAINT & m.XML_NO_ATTR_REDEF_CONSTRAINT, {},
                    lambda s: domains.validate_xml(s, check_namespaces=False, check_attr_redef=True))
        return (m.XML_GRAMMAR_WITH_NAMESPACE_PREFIXES,
                m.XML_NAMESPACE_CONSTRAINT & m.XML_WELLFORMEDNESS_CONSTRAINT & m.XML_NO_ATTR_REDEF_CONSTRAINT, {},
                lambda s: domains.validate_xml(s, check_namespaces=True, check_attr_redef=True))
    if name == "rest":
        from isla_formalizations import rest as m

        parts = {"underline": m.LENGTH_UNDERLINE, "links": m.DEF_LINK_TARGETS, "no_redef": m.NO_LINK_TARGET_REDEF,
                 "numbering": m.LIST_NUMBERING_CONSECUTIVE}
        which = list(parts) if variant == "all" else variant.split("+")
        f = None
        for w in which:
            f = parts[w] if f is None else f & parts[w]
        use_docutils = variant == "all"
        return m.REST_GRAMMAR, f, {}, lambda s: domains.validate_rest(s, which=which, use_docutils=use_docutils)
    if name == "tar":
        from isla_formalizations import simple_tar as m

        return m.SIMPLE_TAR_GRAMMAR, m.TAR_CONSTRAINTS, {}, domains.validate_simple_tar
    raise ValueError(name)


VARIANTS = {
    "csv": ["colno"],
    "xml": ["all", "all", "wellformed", "wellformed+noredef"],
    "rest": ["all", "all", "all", "underline", "links+no_redef", "numbering", "underline+numbering"],
    "tar": ["all"],
}


def make_plan(run_seed: int, profile: Dict[str, Any]) -> Dict[str, Any]:
    rng = random.Random(run_seed)
    name = rng.choice(profile.get("formalizations", ["csv", "xml", "rest", "rest", "tar"]))
    c = CENTRES[name]
    mode = rng.choice(["centre", "centre", "centre", "vary", "vary", "vary", "vary", "vary", "defaults", "defaults", "defaults"])
    if mode == "defaults":
        # second centre: what `ISLaSolver(grammar, formula)` without keyword arguments uses
        c = dict(LIBRARY_DEFAULTS)
    vary = mode == "vary"
    weights = list(c["weights"])
    if vary:
        weights = [max(0.0, round(w * rng.choice([0.5, 1, 1, 1.5, 2]) + rng.choice([0, 0, 0.5, 1]), 2)) for w in weights]
    settings = {
        "max_number_free_instantiations": c["free"] if not vary else rng.choice([c["free"], 1, 2, 3, 5]),
        "max_number_smt_instantiations": c["smt"] if not vary else rng.choice([c["smt"], 1, 2, 3, 10]),
        "enforce_unique_trees_in_queue": c["unique"] if not vary else rng.random() < 0.5,
        "activate_unsat_support": vary and rng.random() < 0.12,
        "global_fuzzer": vary and rng.random() < 0.2,
        "fuzzer": "coverage" if not vary else rng.choice(["coverage", "coverage", "plain"]),
        "timeout_seconds": rng.choice([None, None, 30, 120]),
    }
    return {
        "engine": ENGINE, "run_seed": run_seed, "phase": "dry",
        "formalization": name, "variant": rng.choice(VARIANTS[name]), "settings_mode": mode,
        "settings": settings,
        "cost": {"strategy": rng.choice(["real", "real", "real", "noisy", "noisy", "random"]), "seed": rng.randrange(1 << 30),
                 "weights": weights, "k": c["k"] if not vary else rng.choice([c["k"], 2, 3, 4])},
        "prng": {"strategy": rng.choice(["uniform"] * 6 + ["low_biased", "high_biased"]), "seed": rng.randrange(1 << 30)},
        "clock": {"epoch": 1_700_000_000.25, "c_call": 1.1e-6},
        "ops": [["solve"]] * rng.choice([5, 10, 20, 40]),
        "faults": [],
        "caps": {"op_work": profile.get("op_work", 6_000_000), "total_work": profile.get("total_work", 40_000_000)},
    }


def followup(plan: Dict[str, Any], record: Dict[str, Any]) -> Optional[Dict[str, Any]]:
    if plan.get("phase") != "dry" or plan.get("no_followup"):
        return None
    rng = random.Random(plan["run_seed"] * 6151 + 3)
    if rng.random() < 0.4:
        return None
    counts = record.get("seam_counts", {})
    faults = []
    sites = {k: v for k, v in (record.get("z3_sites") or {}).items() if v > 0}
    if sites and rng.random() < 0.5:
        # an outage that hits the queries of one ISLa function only (e.g. the validity
        # checks of is_valid, the SMT enumeration): the others are served normally
        site = rng.choice(sorted(sites))
        faults.append({"kind": "z3_site_outage", "site": site, "at_site_call": rng.randrange(sites[site]), "len": rng.choice([21, 40, 200, 100000])})
    elif counts.get("z3_calls"):
        faults.append({"kind": rng.choice(["z3_outage", "z3_starved", "z3_unknown", "z3_slow"]), "at_call": rng.randrange(counts["z3_calls"]), "len": rng.choice([21, 60, 400]), "delta": rng.choice([31.0, 121.0])})
    if counts.get("clock_reads") and rng.random() < 0.5:
        faults.append({"kind": rng.choice(["clk_jump_fwd", "clk_slow_window"]), "at_read": rng.randrange(counts["clock_reads"] + 1), "delta": rng.choice([10.0, 200.0]), "len": 5, "factor": 100.0})
    if not faults:
        return None
    new = copy.deepcopy(plan)
    new["phase"] = "faulted"
    new["faults"] = faults
    return new


def execute(plan: Dict[str, Any]) -> Dict[str, Any]:
    from grammar_graph import gg
    from isla.fuzzer import GrammarCoverageFuzzer, GrammarFuzzer
    from isla.solver import CostSettings, CostWeightVector, GrammarBasedBlackboxCostComputer, ISLaSolver

    world = World(plan)
    record: Dict[str, Any] = {"run_seed": plan["run_seed"], "phase": plan["phase"], "formalization": plan["formalization"],
                              "variant": plan["variant"], "violations": [], "outcomes": [], "inconclusive": [],
                              "stats": {"solutions": 0, "validated": 0}}
    grammar, formula, extra, validator = formalization(plan["formalization"], plan["variant"])
    recog = Recognizer(grammar)
    st = plan["settings"]
    with Quiet():
        world.install()
        try:
            graph = gg.GrammarGraph.from_grammar(grammar)
            real_cc = GrammarBasedBlackboxCostComputer(CostSettings(CostWeightVector(*plan["cost"]["weights"]), k=plan["cost"]["k"]), graph)
            cc = SimCostComputer(real_cc, plan["cost"]["strategy"], plan["cost"]["seed"], world.log)
            fcls = GrammarCoverageFuzzer if st["fuzzer"] == "coverage" else GrammarFuzzer
            world.work.extend(world.op_work * 2)
            solver = ISLaSolver(
                grammar, formula,
                max_number_free_instantiations=st["max_number_free_instantiations"],
                max_number_smt_instantiations=st["max_number_smt_instantiations"],
                enforce_unique_trees_in_queue=st["enforce_unique_trees_in_queue"],
                activate_unsat_support=st["activate_unsat_support"],
                global_fuzzer=st["global_fuzzer"],
                timeout_seconds=st["timeout_seconds"],
                cost_computer=cc, fuzzer_factory=lambda g: fcls(g), **extra,
            )
            for op_index, _ in enumerate(plan["ops"]):
                world.work.extend(world.op_work)
                try:
                    tree = solver.solve()
                except (StopIteration, TimeoutError) as e:
                    record["outcomes"].append(type(e).__name__)
                    break
                except SimBudgetExceeded:
                    record["inconclusive"].append(f"op_work_cap:solve:{op_index}")
                    break
                except Exception as exc:
                    if world.work.tripped:
                        record["inconclusive"].append(f"op_work_cap:solve:{op_index}")
                    else:
                        sig = exception_signature(exc)
                        record["inconclusive"].append(f"solver_exception:{sig['type']}:{sig['site']}")
                        record["outcomes"].append("exc:" + sig["type"])
                    break
                if world.work.tripped:
                    record["inconclusive"].append(f"op_work_cap:solve:{op_index}")
                    break
                record["stats"]["solutions"] += 1
                m = to_model(tree)
                s = str(tree)
                problem = None
                clause = None
                if not is_closed(m):
                    clause, problem = "not_closed", s[:100]
                else:
                    v = validate_tree(m, grammar, "<start>")
                    if v:
                        clause, problem = "not_a_derivation_tree", v
                    elif tree_yield(m) != s:
                        clause, problem = "string_differs_from_yield", repr(s[:100])
                    else:
                        dom = validator(s)
                        record["stats"]["validated"] += 1
                        if dom is not None:
                            clause, problem = "domain_validator_rejects", f"{dom}; input {s[:300]!r}"
                record["outcomes"].append("tree" if problem is None else "bad")
                if problem is not None:
                    record["violations"].append(
                        {"property": "C21", "clause": f"{plan['formalization']}_{clause}", "op_index": op_index,
                         "detail": f"[{plan['formalization']}/{plan['variant']}] {problem}",
                         "signature": {"type": "Oracle", "site": f"{plan['formalization']}_{clause}", "message": "", "raw": ""}}
                    )
        except SimBudgetExceeded:
            record["inconclusive"].append("total_work_cap")
        finally:
            world.uninstall()
    record["seam_counts"] = world.seam_counts()
    record["fired"] = world.fired()
    record["z3_results"] = world.z3.results
    record["z3_sites"] = world.z3.sites
    record["virtual_s"] = round(world.clock.now_virtual(), 3)
    h = hashlib.sha256()
    h.update(world.log.digest().encode())
    h.update(repr(record["outcomes"]).encode())
    record["digest"] = h.hexdigest()[:16]
    record["events"] = world.log.n
    return record
