"""reprosim (C22): "in a fresh interpreter with a fixed hash seed, random.seed(s) +
ISLaSolver + solve() k times gives the same sequence every time".

For one scenario, hash seed and PRNG seed, 2-3 *fresh interpreters* (ASLR off, so that
even address-dependent behaviour replays exactly) run the user's program, each under a
different *perturbation schedule* of everything the property says must not matter:
heap layout (pre-allocated ballast shifts every later id()/address), garbage-collector
mode, import order of isla submodules, wall-clock epoch, clock speed and stalls between
solve() calls (no timeout is configured), cwd / HOME / COLUMNS / argv.
The same deterministic Z3 budget and the same (optional) Z3 unknown schedule apply to
all children -- a Z3 timeout is part of the environment both runs share; what is
compared is whether ISLa's reaction to it is reproducible.
"""

import hashlib
import json
import os
import platform
import random
import shutil
import subprocess
import sys
from typing import Any, Dict, List, Optional

from gen.formulas import gen_formula
from gen.grammars import make_grammar
from oracles.semantics import print_formula

ENGINE = "reprosim"
VERIF = os.path.dirname(os.path.dirname(os.path.abspath(__file__)))
ISLA_MODULES = ["isla.helpers", "isla.derivation_tree", "isla.language", "isla.z3_helpers", "isla.evaluator", "isla.fuzzer",
                "isla.existential_helpers", "isla.isla_predicates", "isla.parser", "isla.mutator", "isla.three_valued_truth", "isla.trie"]


def gen_perturbation(rng: random.Random, idx: int) -> Dict[str, Any]:
    order = list(ISLA_MODULES)
    rng.shuffle(order)
    return {
        "heap_objects": 0 if idx == 0 else rng.choice([1, 7, 100, 1000, 5000, 33333]),
        "heap_sizes": [rng.choice([8, 16, 24, 48, 100, 1000, 4096]) for _ in range(3)],
        "gc": "default" if idx == 0 else rng.choice(["default", "disabled", "aggressive", "lazy", "freeze"]),
        "import_order": [] if idx == 0 else order[: rng.randint(0, len(order))],
        "epoch": rng.choice([0.0, 12.75, 1.7e9, 2147483647.5, 4.1e9]),
        "cwd": None if idx == 0 else f"/tmp/islarepro_{rng.randrange(1 << 30)}",
        "env": {} if idx == 0 else {"COLUMNS": str(rng.choice([20, 80, 200])), "HOME": rng.choice(["/tmp", "/nonexistent", "/"]), "LANG": rng.choice(["C", "C.UTF-8"]), "TZ": rng.choice(["UTC", "Asia/Tokyo"])},
        "argv": [] if idx == 0 else [f"--x{rng.randrange(100)}"] * rng.randint(0, 3),
        "clock_rate": 0.0 if idx == 0 else rng.choice([0.0, 1.1e-6, 1.1e-6, 1.1e-4, 1.1e-3]),
        "stalls": {} if idx == 0 or rng.random() < 0.4 else {str(rng.randrange(12)): rng.choice([3.0, 30.0, 61.0, 3600.0, 1e6]) for _ in range(rng.choice([1, 1, 2, 3]))},
    }


def make_plan(run_seed: int, profile: Dict[str, Any]) -> Dict[str, Any]:
    from engines.solversim import gen_settings

    rng = random.Random(run_seed)
    formalization = None
    if rng.random() < profile.get("formalization_prob", 0.12):
        formalization = rng.choice(["csv", "xml", "rest"])
        family, grammar, formula_text = formalization, {}, ""
    else:
        family, grammar = make_grammar(rng)
        formula = gen_formula(grammar, rng, family)
        formula_text = print_formula(formula)
    st = gen_settings(rng)
    st["timeout_seconds"] = None
    scenario = {
        "family": family, "grammar": grammar, "formula_text": formula_text, "settings": st,
        "formalization": formalization,
        # an all-zero weight vector makes every queued state cost 0: the processing order is
        # then decided by hash(state) alone, which must depend on nothing but the hash seed
        "cost_weights": rng.choice([None, None, [0, 0, 0, 0, 0], [rng.choice([0, 1, 2, 6.5, 10, 19]) for _ in range(5)]]),
        "cost_k": rng.choice([3, 3, 2, 4]),
    }
    n_children = rng.choice([2, 2, 3])
    z3_faults = []
    if rng.random() < 0.4:
        for _ in range(rng.choice([1, 2])):
            z3_faults.append({"kind": rng.choice(["z3_unknown", "z3_unknown", "z3_outage", "z3_starved"]), "at_call": rng.randrange(60), "len": rng.choice([2, 5, 21])})
    perturbations = [gen_perturbation(rng, i) for i in range(n_children)]
    if st["activate_unsat_support"]:
        # with unsat support ISLa bounds every nested unsatisfiability check by 2 s of
        # *its own* clock: there the passage of time matters by design (a slower machine
        # may legitimately see other results), so the clock stands still for all children
        for p in perturbations:
            p["clock_rate"] = 0.0
            p["stalls"] = {}
    return {
        "engine": ENGINE, "run_seed": run_seed, "phase": "repro",
        "scenario": scenario, "prng_seed": rng.randrange(1 << 30), "k": rng.choice([5, 10, 20, 30]),
        "op_work": profile.get("op_work", 1_500_000),
        "ops": perturbations,  # one op = one child = one perturbation schedule
        "faults": z3_faults,
    }


def run_child(plan: Dict[str, Any], pert: Dict[str, Any], timeout: float) -> Dict[str, Any]:
    job = {"scenario": plan["scenario"], "prng_seed": plan["prng_seed"], "k": plan["k"], "perturbation": pert,
           "z3_faults": plan.get("faults") or [], "op_work": plan.get("op_work", 1_500_000)}
    env = dict(os.environ)
    env["PYTHONHASHSEED"] = str(plan.get("hashseed", 0) if plan.get("hashseed") not in (None, "random") else 0)
    env["PYTHONWARNINGS"] = "ignore"
    alt = env.get("VERIF_REPO_SRC")
    env["PYTHONPATH"] = VERIF + (os.pathsep + alt if alt else "")
    setarch = shutil.which("setarch")
    cmd = ([setarch, platform.machine(), "-R"] if setarch else []) + ["/venv/bin/python", os.path.join(VERIF, "engines", "reprochild.py")]
    try:
        p = subprocess.run(cmd, input=json.dumps(job).encode(), capture_output=True, timeout=timeout, env=env, cwd="/tmp")
    except subprocess.TimeoutExpired:
        return {"end": "wall_timeout", "solutions": []}
    finally:
        if pert.get("cwd") and pert["cwd"].startswith("/tmp/islarepro_"):
            shutil.rmtree(pert["cwd"], ignore_errors=True)
    try:
        return json.loads(p.stdout.decode("utf-8"))
    except Exception:
        return {"end": "child_failed:" + p.stderr.decode("utf-8", "replace")[-300:], "solutions": []}


def execute(plan: Dict[str, Any]) -> Dict[str, Any]:
    record: Dict[str, Any] = {"run_seed": plan["run_seed"], "phase": plan.get("phase"), "violations": [], "inconclusive": []}
    results = [run_child(plan, pert, timeout=150.0) for pert in plan["ops"]]
    ends = [r.get("end") for r in results]
    record["ends"] = ends
    record["lengths"] = [len(r.get("solutions", [])) for r in results]
    record["z3_fired"] = results[0].get("z3_fired", {})
    record["z3_unknown"] = sum((r.get("z3_results") or {}).get("unknown", 0) + (r.get("z3_results") or {}).get("unknown*", 0) for r in results[:1])
    bad = [e for e in ends if e and (e.startswith("child_failed") or e == "wall_timeout")]
    if bad:
        record["inconclusive"].append("child:" + bad[0][:80])
        record["digest"] = hashlib.sha256(json.dumps(ends).encode()).hexdigest()[:16]
        return record
    base = results[0]
    for i, r in enumerate(results[1:], start=1):
        a, b = base["solutions"], r["solutions"]
        # a run cut by the deterministic work cap is only comparable on the common prefix
        cut = "budget" in (base.get("end"), r.get("end"))
        n = min(len(a), len(b)) if cut else max(len(a), len(b))
        first_diff = None
        for j in range(n):
            if j >= len(a) or j >= len(b) or a[j] != b[j]:
                first_diff = j
                break
        if first_diff is None and not cut and (base.get("end") != r.get("end")):
            first_diff = n
        if first_diff is not None:
            x = a[first_diff][0] if first_diff < len(a) else f"<{base.get('end')}>"
            y = b[first_diff][0] if first_diff < len(b) else f"<{r.get('end')}>"
            record["violations"].append(
                {
                    "property": "C22", "clause": "sequences_differ", "op_index": i,
                    "detail": f"same hash seed and random seed, solution #{first_diff + 1} differs: {x[:80]!r} vs {y[:80]!r} (child 0 perturbation {plan['ops'][0]}, child {i} perturbation {plan['ops'][i]})",
                    "signature": {"type": "Oracle", "site": "sequences_differ", "message": "", "raw": ""},
                }
            )
            break
    record["solutions"] = len(base["solutions"])
    record["sample"] = [s[0][:60] for s in base["solutions"][:3]]
    record["digest"] = hashlib.sha256(json.dumps([r.get("solutions") for r in results[:1]] + [ends]).encode()).hexdigest()[:16]
    return record


def simplifications(plan: Dict[str, Any], violation: Dict[str, Any]):
    """Drop perturbation components of the deviating child while the mismatch persists;
    reduce k."""
    i = violation.get("op_index", 1)
    if len(plan["ops"]) > 2:
        q = json.loads(json.dumps(plan))
        q["ops"] = [plan["ops"][0], plan["ops"][i]]
        yield q
    base = {"heap_objects": 0, "gc": "default", "import_order": [], "cwd": None, "env": {}, "argv": [], "epoch": plan["ops"][0]["epoch"], "clock_rate": 0.0, "stalls": {}}
    j = min(i, len(plan["ops"]) - 1)
    for key, val in base.items():
        if plan["ops"][j].get(key) != val:
            q = json.loads(json.dumps(plan))
            q["ops"][j][key] = val
            yield q
    if plan["k"] > 2:
        q = json.loads(json.dumps(plan))
        q["k"] = max(2, plan["k"] // 2)
        yield q
