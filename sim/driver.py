"""Batch driver: seeds -> plans -> forked runs -> records -> verdict + evidence.

Top level (`run_check`) spawns one *part* process per hash seed (fresh interpreter,
PYTHONHASHSEED fixed, ASLR off via setarch -R), each of which forks one child per run
from a warm image.  A run seed is  VERIF_SEED * 2**20 + i ; part k executes the seeds
with i % K == k.  Every run is a pure function of (plan, code, hash seed).
"""

import importlib
import json
import os
import platform
import re
import shutil
import subprocess
import sys
import tempfile
import time
from typing import Any, Callable, Dict, List, Optional, Tuple

VERIF = os.path.dirname(os.path.dirname(os.path.abspath(__file__)))
PY = "/venv/bin/python"
HASHSEEDS = [0, 1, 2, 3]


def verif_seed() -> int:
    try:
        return int(os.environ.get("VERIF_SEED", "0"))
    except ValueError:
        return 0


def run_seed_for(i: int) -> int:
    return verif_seed() * (1 << 20) + i


def setarch_prefix() -> List[str]:
    exe = shutil.which("setarch")
    if exe:
        try:
            r = subprocess.run(
                [exe, platform.machine(), "-R", "true"], capture_output=True, timeout=10
            )
            if r.returncode == 0:
                return [exe, platform.machine(), "-R"]
        except Exception:
            pass
    return []


def load_engine(name: str):
    return importlib.import_module(f"engines.{name}")


# ------------------------------------------------------------------------- part process


def part_main(argv: List[str]) -> int:
    """Executed in a fresh interpreter with fixed PYTHONHASHSEED."""
    import argparse

    ap = argparse.ArgumentParser()
    ap.add_argument("--engine", required=True)
    ap.add_argument("--profile", required=True)  # json
    ap.add_argument("--part", type=int, default=0)
    ap.add_argument("--parts", type=int, default=1)
    ap.add_argument("--runs", type=int, default=0)
    ap.add_argument("--nproc", type=int, default=4)
    ap.add_argument("--deadline", type=float, default=0.0)
    ap.add_argument("--wall", type=float, default=120.0)
    ap.add_argument("--out", required=True)
    ap.add_argument("--plans", default="")  # file with explicit plans (replay/minimise)
    ap.add_argument("--first", type=int, default=0)
    args = ap.parse_args(argv)

    import faulthandler

    faulthandler.enable()
    sys.setrecursionlimit(20000)
    engine = load_engine(args.engine)
    profile = json.loads(args.profile)
    from sim.pool import run_jobs

    if hasattr(engine, "warm"):
        engine.warm()

    hashseed = os.environ.get("PYTHONHASHSEED", "random")

    def jobs():
        if args.plans:
            with open(args.plans) as f:
                for line in f:
                    if line.strip():
                        yield json.loads(line)
            return
        i = args.part
        while i < args.first:
            i += args.parts
        while i < args.runs:
            plan = engine.make_plan(run_seed_for(i), profile)
            plan["hashseed"] = hashseed
            plan["index"] = i
            yield plan
            i += args.parts

    def followup(plan, record):
        if args.plans:
            return None
        nxt = engine.followup(plan, record) if hasattr(engine, "followup") else None
        if nxt is not None:
            nxt["hashseed"] = hashseed
            nxt["index"] = plan.get("index")
        return nxt

    deadline = args.deadline if args.deadline > 0 else None
    with open(args.out, "w") as out:
        for plan, record in run_jobs(
            jobs(), engine.execute, args.nproc, wall_limit=args.wall,
            followup=followup, deadline=deadline,
        ):
            keep_plan = bool(args.plans) or bool(
                isinstance(record, dict) and (record.get("violations") or record.get("lost"))
            )
            line = {
                "run_seed": plan.get("run_seed"),
                "index": plan.get("index"),
                "phase": plan.get("phase"),
                "hashseed": hashseed,
                "record": record,
            }
            if keep_plan or plan.get("index", 0) < 3 * args.parts:
                line["plan"] = plan
            out.write(json.dumps(line, default=str) + "\n")
            out.flush()
    return 0


def spawn_part(engine: str, profile: Dict[str, Any], hashseed: int, out: str, extra: List[str],
               optimize: bool = False) -> subprocess.Popen:
    env = dict(os.environ)
    env["PYTHONHASHSEED"] = str(hashseed)
    # Development aid only (never set by the registered commands): run against the
    # sources of a scratch worktree instead of /repo (the editable install), e.g. to
    # try a seeded change without touching /repo while other runs use it.
    alt_src = env.get("VERIF_REPO_SRC")
    env["PYTHONPATH"] = VERIF + os.pathsep + (alt_src + os.pathsep if alt_src else "") + env.get("PYTHONPATH", "")
    env["PYTHONWARNINGS"] = "ignore"
    cmd = setarch_prefix() + [PY] + (["-O"] if optimize else []) + [
        os.path.join(VERIF, "checkmain.py"), "--part-process",
        "--engine", engine, "--profile", json.dumps(profile), "--out", out,
    ] + extra
    return subprocess.Popen(cmd, env=env, cwd=VERIF, stdout=subprocess.DEVNULL, stderr=subprocess.PIPE)


def run_plans(engine: str, plans: List[Dict[str, Any]], hashseed, wall: float = 120.0,
              nproc: int = 8) -> List[Dict[str, Any]]:
    """Executes explicit plans (replay / minimisation) in a fresh interpreter."""
    tmp = tempfile.mkdtemp(prefix="islasim_")
    try:
        pf = os.path.join(tmp, "plans.jsonl")
        of = os.path.join(tmp, "out.jsonl")
        with open(pf, "w") as f:
            for i, p in enumerate(plans):
                p = dict(p)
                p["index"] = i
                f.write(json.dumps(p) + "\n")
        hs = 0 if hashseed in (None, "random") else int(hashseed)
        proc = spawn_part(engine, {}, hs, of, ["--plans", pf, "--nproc", str(nproc), "--wall", str(wall)])
        try:
            _, err = proc.communicate(timeout=wall * (2 + len(plans) / max(1, nproc)) + 60)
        except subprocess.TimeoutExpired:
            proc.kill()
            return []
        results: Dict[int, Dict[str, Any]] = {}
        if os.path.exists(of):
            with open(of) as f:
                for line in f:
                    d = json.loads(line)
                    results[d["index"]] = d
        return [results.get(i, {"record": {"lost": "no_result"}}) for i in range(len(plans))]
    finally:
        shutil.rmtree(tmp, ignore_errors=True)


# ------------------------------------------------------------------------- known findings


def load_known_findings() -> List[Dict[str, Any]]:
    p = os.path.join(VERIF, "known_findings.json")
    if not os.path.exists(p):
        return []
    with open(p) as f:
        data = json.load(f)
    return [e for e in data.get("findings", []) if e.get("status", "open") == "open"]


def match_known(v: Dict[str, Any], known: List[Dict[str, Any]]) -> Optional[Dict[str, Any]]:
    for k in known:
        # "property" names the property the finding was filed under; "properties"
        # (optional) lists every property through whose API the same call-site
        # failure can surface (e.g. a solver crash seen via solve(), repair(), the CLI)
        props = k.get("properties") or [k["property"]]
        if v.get("property") not in props:
            continue
        if "clause" in k and "properties" not in k and k["clause"] != v.get("clause"):
            continue
        if "clauses" in k and v.get("clause") not in k["clauses"]:
            continue
        sig = v.get("signature") or {}
        ks = k.get("signature") or {}
        if "type" in ks and ks["type"] != sig.get("type"):
            continue
        if "site" in ks and ks["site"] != sig.get("site"):
            continue
        if "message_regex" in ks and not re.search(ks["message_regex"], sig.get("raw", "") or sig.get("message", "")):
            continue
        if "detail_regex" in k and not re.search(k["detail_regex"], v.get("detail", ""), re.S):
            continue
        if "features_all" in k and not set(k["features_all"]) <= set(v.get("features") or []):
            continue
        return k
    return None


def violation_key(v: Dict[str, Any]) -> Tuple:
    sig = v.get("signature") or {}
    return (v.get("property"), v.get("clause"), sig.get("type"), sig.get("site"), sig.get("message"))


# ------------------------------------------------------------------------- minimisation


def same_violation(rec: Dict[str, Any], key: Tuple) -> Optional[Dict[str, Any]]:
    for v in (rec or {}).get("violations", []) or []:
        if violation_key(v)[:4] == key[:4]:
            return v
    return None


def minimise(engine_name: str, plan: Dict[str, Any], violation: Dict[str, Any], hashseed,
             budget: int = 40, wall: float = 120.0) -> Tuple[Dict[str, Any], Dict[str, Any], Dict[str, int]]:
    """Greedy one-at-a-time reduction of faults, ops and engine-specific simplifications,
    keeping a candidate only if the same property/clause/call-site fails again."""
    engine = load_engine(engine_name)
    key = violation_key(violation)
    stats = {"reexecutions": 0, "from_ops": len(plan.get("ops", [])), "from_faults": len(plan.get("faults", []))}
    best_plan = plan
    best_v = violation

    def candidates(p: Dict[str, Any]):
        # drop faults
        for i in range(len(p.get("faults", []))):
            q = json.loads(json.dumps(p))
            del q["faults"][i]
            yield q
        # truncate ops after the failing op
        oi = best_v.get("op_index")
        if isinstance(oi, int) and oi + 1 < len(p.get("ops", [])):
            q = json.loads(json.dumps(p))
            q["ops"] = q["ops"][: oi + 1]
            yield q
        # drop single ops (from the front)
        for i in range(len(p.get("ops", []))):
            q = json.loads(json.dumps(p))
            del q["ops"][i]
            yield q
        if hasattr(engine, "simplifications"):
            yield from engine.simplifications(p, best_v)

    progress = True
    while progress and stats["reexecutions"] < budget:
        progress = False
        batch = []
        for q in candidates(best_plan):
            q["no_followup"] = True
            batch.append(q)
            if len(batch) >= 8:
                break
        if not batch:
            break
        results = run_plans(engine_name, batch, hashseed, wall=wall)
        stats["reexecutions"] += len(batch)
        for q, r in zip(batch, results):
            v = same_violation(r.get("record", {}), key)
            if v is not None:
                best_plan, best_v = q, v
                progress = True
                break
        if not progress:
            # try the remaining candidates (beyond the first 8) once
            rest = list(candidates(best_plan))[8:40]
            for q in rest:
                q["no_followup"] = True
            if rest and stats["reexecutions"] + len(rest) <= budget:
                results = run_plans(engine_name, rest, hashseed, wall=wall)
                stats["reexecutions"] += len(rest)
                for q, r in zip(rest, results):
                    v = same_violation(r.get("record", {}), key)
                    if v is not None:
                        best_plan, best_v = q, v
                        progress = True
                        break
    stats["to_ops"] = len(best_plan.get("ops", []))
    stats["to_faults"] = len(best_plan.get("faults", []))
    return best_plan, best_v, stats


# ------------------------------------------------------------------------- check


def run_batch(engine_name: str, profile: Dict[str, Any], runs: int, budget_s: float, wall: float,
              nproc_total: int) -> Tuple[List[Dict[str, Any]], List[str]]:
    """One batch of an engine over all hash seeds; returns (result lines, part errors)."""
    t0 = time.time()
    parts = len(HASHSEEDS)
    nproc = max(1, nproc_total // parts)
    deadline = t0 + budget_s
    tmp = tempfile.mkdtemp(prefix="islasim_")
    procs = []
    outs = []
    for k, hs in enumerate(HASHSEEDS):
        of = os.path.join(tmp, f"part{k}.jsonl")
        outs.append(of)
        procs.append(
            spawn_part(
                engine_name, profile, hs, of,
                ["--part", str(k), "--parts", str(parts), "--runs", str(runs),
                 "--nproc", str(nproc), "--deadline", str(deadline), "--wall", str(wall)],
            )
        )
    part_errors = []
    for p in procs:
        try:
            _, err = p.communicate(timeout=budget_s + wall * 2 + 120)
        except subprocess.TimeoutExpired:
            p.kill()
            _, err = p.communicate()
            part_errors.append("part timed out")
        if p.returncode not in (0, None):
            part_errors.append(f"part exit {p.returncode}: {(err or b'').decode('utf-8', 'replace')[-800:]}")
    lines: List[Dict[str, Any]] = []
    for of in outs:
        if os.path.exists(of):
            with open(of) as f:
                for line in f:
                    try:
                        d = json.loads(line)
                        d["engine"] = engine_name
                        lines.append(d)
                    except Exception:
                        part_errors.append("bad json line")
    shutil.rmtree(tmp, ignore_errors=True)
    return lines, part_errors


def run_check(prop: str, tier: str, engine_name, profile: Optional[Dict[str, Any]],
              runs: int, budget_s: float, wall: float, nproc_total: int,
              level_text: Dict[str, Any], summarize: Callable[[List[Dict[str, Any]]], Dict[str, Any]],
              properties: Optional[List[str]] = None) -> int:
    """Runs one or several batches (engine_name may be a list of stages
    (engine, profile, runs, budget_s)), judges, minimises, writes evidence and replay
    files.  Returns the process exit code."""
    t0 = time.time()
    properties = properties or [prop]
    stages = engine_name if isinstance(engine_name, list) else [(engine_name, profile, runs, budget_s)]
    lines: List[Dict[str, Any]] = []
    part_errors: List[str] = []
    for (eng, prof, n, b) in stages:
        ls, errs = run_batch(eng, prof, n, b, wall, nproc_total)
        lines.extend(ls)
        part_errors.extend(errs)

    known = load_known_findings()
    lost = [l for l in lines if "lost" in (l.get("record") or {})]
    ok_lines = [l for l in lines if "lost" not in (l.get("record") or {})]
    new_violations: List[Tuple[Dict[str, Any], Dict[str, Any]]] = []
    known_hits: Dict[str, Dict[str, Any]] = {}
    other_props: Dict[str, int] = {}
    for l in ok_lines:
        for v in l["record"].get("violations", []) or []:
            if v.get("property") not in properties:
                other_props[v.get("property")] = other_props.get(v.get("property"), 0) + 1
                continue
            k = match_known(v, known)
            if k is not None:
                e = known_hits.setdefault(k["id"], {"finding": k, "count": 0, "example": v.get("detail", "")[:300]})
                e["count"] += 1
            else:
                new_violations.append((l, v))

    exit_code = 0
    out_lines: List[str] = []
    for kid, e in sorted(known_hits.items()):
        out_lines.append(f"KNOWN-FINDING: property={prop} {kid}: {e['finding']['what']} (seen {e['count']}x in this run)")
    # every listed (open) finding of this property gets its line, also when this batch's
    # seeds did not run into it (a seeded search meets a given finding only in some batches)
    for k in known:
        if prop in (k.get("properties") or [k["property"]]) and k["id"] not in known_hits:
            out_lines.append(f"KNOWN-FINDING: property={prop} {k['id']}: {k['what'][:300]} (listed; not encountered in this run)")

    # distinct new violations -> minimise a few and write replay files
    seen_keys = set()
    # VERIF_OUT_DIR: development aid (tools/try_seed.sh) so that trials against a patched
    # scratch worktree never overwrite the evidence / replays of /repo itself
    out_root = os.environ.get("VERIF_OUT_DIR") or VERIF
    replay_dir = os.path.join(out_root, "replays")
    os.makedirs(replay_dir, exist_ok=True)
    reported = 0
    for l, v in new_violations:
        key = violation_key(v)
        if key in seen_keys:
            continue
        seen_keys.add(key)
        if reported >= 5:
            continue
        reported += 1
        plan = l.get("plan")
        engine_name = l.get("engine")
        eng = load_engine(engine_name)
        if plan is not None and hasattr(eng, "scripted_plan"):
            plan = eng.scripted_plan(plan, v)
        min_stats = {}
        vv = v
        if plan is not None and tier != "nomin":
            try:
                plan2, vv2, min_stats = minimise(engine_name, plan, v, l.get("hashseed"), budget=40 if tier == "quick" else 120, wall=wall)
                # confirm in a fresh interpreter
                conf = run_plans(engine_name, [dict(plan2, no_followup=True)], l.get("hashseed"), wall=wall)
                if conf and same_violation(conf[0].get("record", {}), key) is not None:
                    plan, vv = plan2, vv2
                    min_stats["confirmed_in_fresh_interpreter"] = True
                else:
                    min_stats["confirmed_in_fresh_interpreter"] = False
            except Exception as exc:  # minimisation is best effort
                min_stats = {"error": repr(exc)}
        rp = os.path.join(replay_dir, f"{v.get('property')}-{l.get('run_seed')}-{l.get('phase')}.json")
        with open(rp, "w") as f:
            json.dump({"property": v.get("property"), "engine": engine_name, "hashseed": l.get("hashseed"),
                       "run_seed": l.get("run_seed"), "plan": plan, "violation": vv, "minimised": min_stats,
                       "digest": l["record"].get("digest")}, f, indent=1, default=str)
        out_lines.append(f"VIOLATION property={v.get('property')} replay={rp}")
        out_lines.append(f"  clause={vv.get('clause')} detail={str(vv.get('detail'))[:300]}")
        exit_code = 1

    # harness health
    n_total = len(lines)
    lost_frac = (len(lost) / n_total) if n_total else 1.0
    harness_problem = None
    if n_total == 0:
        harness_problem = "no runs completed: " + "; ".join(part_errors)[:500]
    elif lost_frac > 0.2:
        reasons: Dict[str, int] = {}
        for l in lost:
            r = l["record"].get("lost")
            reasons[r] = reasons.get(r, 0) + 1
        harness_problem = f"{len(lost)}/{n_total} runs lost: {reasons}"

    wall_s = time.time() - t0
    cov = summarize(ok_lines)
    cov.setdefault("evaluations", len(ok_lines))
    lost_reasons: Dict[str, int] = {}
    for l in lost:
        r = str(l["record"].get("lost"))
        lost_reasons[r] = lost_reasons.get(r, 0) + 1
    cov["runs_lost"] = lost_reasons
    cov["runs_per_hour"] = int(len(ok_lines) / max(wall_s, 1e-6) * 3600)
    cov["hash_seeds"] = HASHSEEDS
    cov["known_findings_seen"] = {k: e["count"] for k, e in known_hits.items()}
    cov["violations_of_other_properties_seen"] = other_props
    cov["part_errors"] = part_errors[:5]
    evidence = {
        "property_id": prop,
        "tier": "thorough" if tier == "thorough" else "quick",
        "seed": verif_seed(),
        "level": level_text.get("category", "exploration"),
        "coverage": cov,
        "assumptions": level_text.get("assumptions", []),
        "wall_s": round(wall_s, 2),
        "violations": len(seen_keys),
    }
    os.makedirs(os.path.join(out_root, "evidence"), exist_ok=True)
    with open(os.path.join(out_root, "evidence", f"{prop}.json"), "w") as f:
        json.dump(evidence, f, indent=1, default=str)

    if other_props.get("HARNESS") and not harness_problem:
        example = next((v.get("detail", "") for l in ok_lines for v in (l["record"].get("violations") or []) if v.get("property") == "HARNESS"), "")
        harness_problem = f"{other_props['HARNESS']} harness exception(s) inside runs, e.g. {example[-400:]}"

    for s in out_lines:
        print(s)
    if harness_problem and exit_code == 0:
        print(f"HARNESS-ERROR: {harness_problem}")
        return 2
    print(f"{prop} {tier}: runs={len(ok_lines)} lost={len(lost)} new_violations={len(seen_keys)} known={len(known_hits)} wall={wall_s:.0f}s")
    return exit_code
