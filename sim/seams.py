"""Seams between ISLa and its environment, owned by the simulator.

All of them are installed from the outside (module attributes / existing constructor
parameters); /repo contains no hook.

  clock : `isla.solver.time`   -> ClockFacade (work-based virtual time + injected faults)
  prng  : `<isla module>.random` -> SimRandom (seeded, strategy-driven, logged)
  z3    : `z3.Solver.check/set`, `z3.set_param` -> deterministic rlimit budget,
          injectable `unknown`, parallel mode forced off
  sched : `ISLaSolver(cost_computer=SimCostComputer(...))`
  work  : sys.monitoring PY_START counter = deterministic measure of work; drives the
          clock and enforces a deterministic work cap

Nothing here reads a real clock or draws from a PRNG for logging.
"""

import hashlib
import random as _random
import sys
from typing import Any, Callable, Dict, List, Optional

import z3

ISLA_MODULES_WITH_RANDOM = [
    "isla.solver",
    "isla.z3_helpers",
    "isla.helpers",
    "isla.fuzzer",
    "isla.mutator",
    "isla.isla_predicates",
    "isla.parser",
    "isla.language",
]


class SimBudgetExceeded(BaseException):
    """Deterministic work cap exceeded.  BaseException: `returns.safe` and ISLa's
    `except Exception` must not swallow it."""


# ----------------------------------------------------------------------------- log


class EventLog:
    """Seam event log.  Only a rolling digest plus counters and a bounded tail are
    kept; the digest identifies an execution."""

    def __init__(self, keep: int = 0):
        self.h = hashlib.sha256()
        self.n = 0
        self.counts: Dict[str, int] = {}
        self.keep = keep
        self.tail: List[str] = []

    def add(self, kind: str, *data: Any):
        self.n += 1
        self.counts[kind] = self.counts.get(kind, 0) + 1
        line = kind + ":" + ",".join(map(str, data))
        self.h.update(line.encode("utf-8", "backslashreplace"))
        self.h.update(b"\n")
        if self.keep:
            self.tail.append(line)
            if len(self.tail) > self.keep:
                del self.tail[: len(self.tail) - self.keep]

    def digest(self) -> str:
        return self.h.hexdigest()[:16]


# ----------------------------------------------------------------------------- work


class WorkCounter:
    TOOL_ID = 4

    def __init__(self, cap: Optional[int]):
        self.count = 0
        self.cap = cap
        self.installed = False
        self.tripped = False
        self.next_raise = 0

    def install(self):
        m = sys.monitoring
        m.use_tool_id(self.TOOL_ID, "islasim")

        def cb(code, offset):
            self.count += 1
            if self.cap is not None and self.count > self.cap:
                # Raised again every 5000 calls until the operation is left: the first
                # raise may be swallowed (e.g. ctypes turns an exception raised during
                # argument conversion into ctypes.ArgumentError).  `tripped` tells the
                # engine that whatever comes out of the operation is inconclusive.
                if not self.tripped or self.count >= self.next_raise:
                    self.tripped = True
                    self.next_raise = self.count + 5000
                    raise SimBudgetExceeded()

        m.register_callback(self.TOOL_ID, m.events.PY_START, cb)
        m.set_events(self.TOOL_ID, m.events.PY_START)
        self.installed = True

    def uninstall(self):
        if self.installed:
            m = sys.monitoring
            m.set_events(self.TOOL_ID, 0)
            m.register_callback(self.TOOL_ID, m.events.PY_START, None)
            m.free_tool_id(self.TOOL_ID)
            self.installed = False

    def extend(self, extra: int):
        """Re-arms the cap `extra` units of work from now (used between operations so
        that one divergent operation does not eat the budget of the whole run)."""
        self.cap = self.count + extra
        self.tripped = False


# ----------------------------------------------------------------------------- clock


class ClockFacade:
    """Replacement for the `time` module as seen by `isla.solver`.

    now = epoch + work*c_call + z3_rlimit*c_z3 + offset

    Faults (list of dicts, consumed by index of clock read):
      {"kind": "clk_jump_fwd",  "at_read": i, "delta": d}
      {"kind": "clk_jump_back", "at_read": i, "delta": d}   (time() only; a monotonic
                                                            clock never steps back)
      {"kind": "clk_slow_window", "at_read": i, "len": n, "factor": f}
    `time.sleep` is virtual as well (advances the offset).
    """

    def __init__(
        self,
        log: EventLog,
        work: WorkCounter,
        epoch: float = 1_700_000_000.25,
        c_call: float = 1.1e-6,
        c_z3: float = 0.5e-6,
        faults: Optional[List[Dict[str, Any]]] = None,
        mono_origin: float = 1000.0,
    ):
        self.log = log
        self.work = work
        self.epoch = epoch
        # "The reference point of the returned value [of time.monotonic()] is undefined"
        self.mono_origin = mono_origin
        self.c_call = c_call
        self.c_z3 = c_z3
        self.offset_mono = 0.0  # forward jumps, slow windows, sleeps
        self.offset_wall = 0.0  # additionally: backward steps (time() only)
        self.z3_rlimit = 0
        self.reads = 0
        self.faults = list(faults or [])
        self.fired: Dict[str, int] = {}
        self.slow_until_read = -1
        self.slow_factor = 1.0
        self.slow_anchor_work = 0
        self.max_seen = 0.0
        # real functions some code might want
        import time as _t

        self._real = _t

    # --- internals
    def _base(self) -> float:
        return self.work.count * self.c_call + self.z3_rlimit * self.c_z3

    def _tick(self, which: str):
        self.reads += 1
        idx = self.reads - 1
        if self.slow_until_read >= 0:
            # inside a slow window: the work done since the anchor costs factor x
            done = self.work.count - self.slow_anchor_work
            self.offset_mono += done * self.c_call * (self.slow_factor - 1.0)
            self.slow_anchor_work = self.work.count
            if idx >= self.slow_until_read:
                self.slow_until_read = -1
        for f in self.faults:
            if f.get("at_read") == idx and not f.get("_done"):
                f["_done"] = True
                kind = f["kind"]
                self.fired[kind] = self.fired.get(kind, 0) + 1
                if kind == "clk_jump_fwd":
                    self.offset_mono += float(f["delta"])
                elif kind == "clk_jump_back":
                    self.offset_wall -= float(f["delta"])
                elif kind == "clk_slow_window":
                    self.slow_until_read = idx + int(f.get("len", 3))
                    self.slow_factor = float(f.get("factor", 100.0))
                    self.slow_anchor_work = self.work.count
                self.log.add("clkfault", kind, idx)

    def advance(self, delta: float):
        """Operation-level clock step (op script `clock(+d)` / `clock(-d)`)."""
        if delta >= 0:
            self.offset_mono += delta
        else:
            self.offset_wall += delta
        self.log.add("clkstep", delta)

    # --- the `time` module interface used by isla.solver
    def time(self) -> float:
        self._tick("time")
        v = self.epoch + self._base() + self.offset_mono + self.offset_wall
        self.log.add("clk", "t", round(v, 6))
        return v

    def monotonic(self) -> float:
        self._tick("mono")
        v = self.mono_origin + self._base() + self.offset_mono
        self.log.add("clk", "m", round(v, 6))
        return v

    def perf_counter(self) -> float:
        return self.monotonic()

    def time_ns(self) -> int:
        return int(self.time() * 1e9)

    def monotonic_ns(self) -> int:
        return int(self.monotonic() * 1e9)

    def sleep(self, secs: float):
        self.offset_mono += max(0.0, float(secs))
        self.log.add("clk", "sleep", secs)

    def now_virtual(self) -> float:
        """Virtual seconds elapsed (no event, no tick)."""
        return self._base() + self.offset_mono

    def __getattr__(self, name):
        return getattr(self._real, name)


# ----------------------------------------------------------------------------- prng

PRNG_STRATEGIES = [
    "uniform",
    "always_first",
    "always_last",
    "alternate",
    "low_biased",
    "high_biased",
]


class SimRandom(_random.Random):
    """Seeded PRNG handed to every isla module in place of the `random` module.
    All integer draws go through _randbelow, all float draws through random()."""

    def __init__(self, seed: int, strategy: str, log: EventLog):
        super().__init__(seed)
        self.strategy = strategy
        self.log = log
        self.draws = 0
        self._flip = False

    # module-level API compatibility: `random.seed(...)` inside ISLa code re-seeds
    def random(self) -> float:
        self.draws += 1
        v = super().random()
        if self.strategy == "always_first":
            v = 0.0
        elif self.strategy == "always_last":
            v = 1.0 - 2**-53
        elif self.strategy == "alternate":
            self._flip = not self._flip
            v = 0.0 if self._flip else 1.0 - 2**-53
        elif self.strategy == "low_biased":
            v = v * v * v
        elif self.strategy == "high_biased":
            v = 1.0 - v * v * v
            if v >= 1.0:
                v = 1.0 - 2**-53
        self.log.add("rnd", "f", round(v, 9))
        return v

    def _randbelow(self, n: int) -> int:
        self.draws += 1
        u = super()._randbelow(n)
        if self.strategy == "always_first":
            u = 0
        elif self.strategy == "always_last":
            u = n - 1
        elif self.strategy == "alternate":
            self._flip = not self._flip
            u = 0 if self._flip else n - 1
        elif self.strategy == "low_biased":
            u = min(u, super()._randbelow(n), super()._randbelow(n))
        elif self.strategy == "high_biased":
            u = max(u, super()._randbelow(n), super()._randbelow(n))
        self.log.add("rnd", n, u)
        return u

    def getrandbits(self, k: int) -> int:
        v = super().getrandbits(k)
        return v

    # attributes of the `random` module that code may reference
    Random = _random.Random
    SystemRandom = _random.SystemRandom


def install_prng(rnd: SimRandom) -> Callable[[], None]:
    saved = []
    for name in ISLA_MODULES_WITH_RANDOM:
        mod = sys.modules.get(name)
        if mod is None:
            __import__(name)
            mod = sys.modules[name]
        if hasattr(mod, "random"):
            saved.append((mod, mod.random))
            mod.random = rnd

    def undo():
        for mod, old in saved:
            mod.random = old

    return undo


# ----------------------------------------------------------------------------- z3

_ORIG_CHECK = z3.Solver.check
_ORIG_SET = z3.Solver.set
_ORIG_SET_PARAM = z3.set_param

RLIMIT_PER_MS = 2000


def _z3_site() -> str:
    """Which ISLa function issued this Z3 query (call-site class of the fault)."""
    f = sys._getframe(2)
    depth = 0
    while f is not None and depth < 12:
        name = f.f_code.co_name
        fn = f.f_code.co_filename
        if "/isla/" in fn or "/isla_formalizations/" in fn:
            if name == "z3_solve":
                # the interesting site is who asked z3_solve (is_valid's fallback,
                # solve_smt_formulas_with_language_constraints, ...)
                g = f.f_back
                d2 = 0
                while g is not None and d2 < 6:
                    n2 = g.f_code.co_name
                    if ("/isla/" in g.f_code.co_filename) and n2 not in ("<lambda>", "z3_solve"):
                        return "z3_solve<" + n2
                    g = g.f_back
                    d2 += 1
            return name
        f = f.f_back
        depth += 1
    return "?"


class Z3Seam:
    """Faults (consumed by global Z3 call index within the run):
    {"kind": "z3_unknown", "at_call": i}             one call answers unknown
    {"kind": "z3_outage",  "at_call": i, "len": n}   n consecutive calls answer unknown
    {"kind": "z3_starved", "at_call": i, "len": n}   budget / 100 for n calls
    {"kind": "z3_slow",    "at_call": i, "delta": s} the process is stalled for s (virtual)
                                                     seconds while this call runs; the answer
                                                     is the real one
    """

    def __init__(
        self,
        log: EventLog,
        clock: Optional[ClockFacade],
        faults: Optional[List[Dict[str, Any]]] = None,
        rlimit_per_ms: int = RLIMIT_PER_MS,
        default_budget: int = 20_000_000,
    ):
        self.log = log
        self.clock = clock
        self.faults = list(faults or [])
        self.calls = 0
        self.fired: Dict[str, int] = {}
        self.natural_unknown = 0
        self.results: Dict[str, int] = {}
        self.sites: Dict[str, int] = {}
        self.rlimit_per_ms = rlimit_per_ms
        self.default_budget = default_budget
        self.healed = False
        self.active_fault_in_window = False  # any injected fault since last reset

    def heal(self):
        self.healed = True

    def _fault_for(self, idx: int, site: str = "", site_idx: int = 0) -> Optional[str]:
        if self.healed:
            return None
        for f in self.faults:
            if f.get("site") is not None:
                # site-specific outage: the calls number at_site_call .. +len issued by
                # that ISLa function answer unknown (other sites are served normally)
                if f["site"] == site and f.get("at_site_call", 0) <= site_idx < f.get("at_site_call", 0) + int(f.get("len", 1)):
                    return "z3_site_outage"
                continue
            start = f.get("at_call")
            if start is None:
                continue
            ln = int(f.get("len", 1)) if f["kind"] not in ("z3_unknown", "z3_slow") else 1
            if start <= idx < start + ln:
                self._hit = f
                return f["kind"]
        return None

    def install(self) -> Callable[[], None]:
        seam = self

        def sim_set(solver, *args, **kwargs):
            if len(args) == 2 and args[0] == "timeout":
                solver._sim_timeout_ms = int(args[1])
                return None
            if "timeout" in kwargs:
                solver._sim_timeout_ms = int(kwargs.pop("timeout"))
                if not kwargs and not args:
                    return None
            return _ORIG_SET(solver, *args, **kwargs)

        def sim_check(solver, *assumptions):
            idx = seam.calls
            seam.calls += 1
            site = _z3_site()
            site_idx = seam.sites.get(site, 0)
            seam.sites[site] = site_idx + 1
            fault = seam._fault_for(idx, site, site_idx)
            timeout_ms = getattr(solver, "_sim_timeout_ms", None)
            budget = (
                seam.default_budget
                if timeout_ms is None
                else max(1000, int(timeout_ms) * seam.rlimit_per_ms)
            )
            if fault in ("z3_unknown", "z3_outage", "z3_site_outage"):
                seam.fired[fault] = seam.fired.get(fault, 0) + 1
                seam.active_fault_in_window = True
                seam.log.add("z3", idx, site, "unknown*", 0)
                seam.results["unknown*"] = seam.results.get("unknown*", 0) + 1
                # Consumes the time the caller was prepared to wait.
                if seam.clock is not None and timeout_ms is not None:
                    seam.clock.offset_mono += timeout_ms / 1000.0
                return z3.unknown
            if fault == "z3_starved":
                seam.fired[fault] = seam.fired.get(fault, 0) + 1
                seam.active_fault_in_window = True
                budget = max(100, budget // 100)
            _ORIG_SET(solver, "rlimit", budget)
            before = _rlimit_count(solver)
            result = _ORIG_CHECK(solver, *assumptions)
            cost = max(0, _rlimit_count(solver) - before)
            if fault == "z3_slow":
                seam.fired[fault] = seam.fired.get(fault, 0) + 1
                if seam.clock is not None:
                    seam.clock.offset_mono += float(seam._hit.get("delta", 100.0))
            if seam.clock is not None:
                seam.clock.z3_rlimit += cost
                # Z3 work counts towards the deterministic work cap as well
                w = seam.clock.work
                w.count += cost // 2
                if w.cap is not None and w.count > w.cap and not w.tripped:
                    w.tripped = True
                    seam.results["(budget)"] = seam.results.get("(budget)", 0) + 1
                    raise SimBudgetExceeded()
            r = str(result)
            if r == "unknown":
                seam.natural_unknown += 1
            seam.results[r] = seam.results.get(r, 0) + 1
            seam.log.add("z3", idx, site, r, cost)
            return result

        def sim_set_param(*args, **kwargs):
            # parallel.enable is the one nondeterminism source we cannot own: force off.
            if len(args) >= 2 and args[0] == "parallel.enable":
                seam.log.add("z3param", "parallel.enable", args[1], "forced_off")
                return _ORIG_SET_PARAM("parallel.enable", False)
            seam.log.add("z3param", *args)
            return _ORIG_SET_PARAM(*args, **kwargs)

        z3.Solver.check = sim_check
        z3.Solver.set = sim_set
        z3.set_param = sim_set_param
        # `from z3 import set_param` style imports inside isla modules
        patched = []
        for name in ("isla.z3_helpers", "isla.solver"):
            mod = sys.modules.get(name)
            if mod is not None and getattr(mod, "z3", None) is z3:
                continue

        def undo():
            z3.Solver.check = _ORIG_CHECK
            z3.Solver.set = _ORIG_SET
            z3.set_param = _ORIG_SET_PARAM

        return undo


def _rlimit_count(solver) -> int:
    try:
        st = solver.statistics()
        for k in st.keys():
            if k == "rlimit count":
                return int(st.get_key_value(k))
    except Exception:
        pass
    return 0


def oracle_check(solver: "z3.Solver"):
    """Original, never fault-injected check for oracles."""
    _ORIG_SET(solver, "rlimit", 50_000_000)
    return _ORIG_CHECK(solver)


# ----------------------------------------------------------------------------- sched

SCHED_STRATEGIES = ["real", "noisy", "random", "constant", "lifo", "fifo"]


class SimCostComputer:
    """Wraps ISLa's real cost computer; the strategy decides the order in which queued
    states are processed.  Duck-typed replacement of isla.solver.CostComputer."""

    def __init__(self, real, strategy: str, seed: int, log: EventLog):
        self.real = real
        self.strategy = strategy
        self.rng = _random.Random(seed)
        self.log = log
        self.calls = 0

    def compute_cost(self, state) -> float:
        self.calls += 1
        s = self.strategy
        if s == "real":
            c = self.real.compute_cost(state)
        elif s == "noisy":
            c = self.real.compute_cost(state) * (0.5 + self.rng.random())
            c += self.rng.random() * 2.0
        elif s == "random":
            c = self.rng.random() * 100.0
        elif s == "constant":
            c = 1.0
        elif s == "lifo":
            c = -float(self.calls)
        elif s == "fifo":
            c = float(self.calls)
        else:
            raise ValueError(s)
        self.log.add("cost", self.calls, round(float(c), 6))
        return c

    def signal_tree_output(self, tree) -> None:
        if self.real is not None:
            self.real.signal_tree_output(tree)

    def __getattr__(self, name):
        # e.g. `.graph`, `.cost_settings` accessed by copy_without_queue users
        return getattr(self.real, name)
