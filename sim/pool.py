"""Fork-per-run job pool.

The parent process imports everything once (warm image) and never executes code of the
system under test itself.  Every job is executed in a freshly forked child, so every
run starts from a byte-identical process image (same DerivationTree.next_id, empty
lru_caches, same Z3 global params), independent of worker count and batch order.

A child writes exactly one JSON document to its pipe and _exit()s.  The parent enforces
a wall-clock backstop (SIGKILL); a killed or crashed child yields a record
{"lost": reason}; it is never a pass and never a violation.
"""

import json
import os
import selectors
import signal
import sys
import time
import traceback
from typing import Any, Callable, Dict, Iterable, Iterator, List, Optional, Tuple


class SimBackstop(BaseException):
    """Raised in a child by SIGALRM (wall-clock backstop).  BaseException so that
    `except Exception` in the system under test cannot swallow it."""


def _child_main(fn: Callable[[Any], Any], job: Any, wfd: int, wall_limit: float):
    # noinspection PyBroadException
    try:
        def on_alarm(signum, frame):
            raise SimBackstop()

        signal.signal(signal.SIGALRM, on_alarm)
        signal.setitimer(signal.ITIMER_REAL, wall_limit)
        try:
            result = fn(job)
        except SimBackstop:
            result = {"lost": "wall_backstop"}
        except BaseException as exc:  # harness error inside the child
            result = {
                "lost": "harness_exception",
                "exception": type(exc).__name__,
                "message": str(exc)[:500],
                "traceback": traceback.format_exc()[-3000:],
            }
        signal.setitimer(signal.ITIMER_REAL, 0)
        data = json.dumps(result, default=str).encode("utf-8")
        off = 0
        while off < len(data):
            off += os.write(wfd, data[off : off + 65536])
        os.close(wfd)
    except BaseException:
        pass
    finally:
        # noinspection PyProtectedMember
        os._exit(0)


def run_jobs(
    jobs: Iterable[Any],
    fn: Callable[[Any], Any],
    nproc: int,
    wall_limit: float = 120.0,
    followup: Optional[Callable[[Any, Any], Optional[Any]]] = None,
    deadline: Optional[float] = None,
    on_result: Optional[Callable[[Any, Any], None]] = None,
) -> Iterator[Tuple[Any, Any]]:
    """Runs fn(job) for every job in a forked child, at most `nproc` at a time.
    Yields (job, result) in completion order.  `followup(job, result)` may return
    a further job (executed with priority).  After `deadline` (time.time() value)
    no new jobs are started (jobs not started are simply not run)."""

    sel = selectors.DefaultSelector()
    active: Dict[int, Dict[str, Any]] = {}  # rfd -> info
    pending_followups: List[Any] = []
    jobs_iter = iter(jobs)
    exhausted = False

    def start(job: Any):
        rfd, wfd = os.pipe()
        sys.stdout.flush()
        sys.stderr.flush()
        pid = os.fork()
        if pid == 0:
            os.close(rfd)
            for info in active.values():
                try:
                    os.close(info["rfd"])
                except OSError:
                    pass
            _child_main(fn, job, wfd, wall_limit)
        os.close(wfd)
        os.set_blocking(rfd, False)
        active[rfd] = {
            "rfd": rfd,
            "pid": pid,
            "job": job,
            "buf": bytearray(),
            "start": time.time(),
        }
        sel.register(rfd, selectors.EVENT_READ)

    def finish(info: Dict[str, Any], killed: bool) -> Tuple[Any, Any]:
        sel.unregister(info["rfd"])
        os.close(info["rfd"])
        del active[info["rfd"]]
        try:
            _, status = os.waitpid(info["pid"], 0)
        except ChildProcessError:
            status = 0
        if killed:
            result = {"lost": "killed_by_parent_backstop"}
        else:
            try:
                result = json.loads(bytes(info["buf"]).decode("utf-8"))
            except Exception:
                result = {
                    "lost": "child_died",
                    "status": status,
                    "partial": len(info["buf"]),
                }
        return info["job"], result

    while True:
        while len(active) < nproc:
            if pending_followups:
                start(pending_followups.pop(0))
                continue
            if exhausted or (deadline is not None and time.time() > deadline):
                exhausted = True
                break
            try:
                start(next(jobs_iter))
            except StopIteration:
                exhausted = True
                break

        if not active:
            if pending_followups:
                continue
            break

        events = sel.select(timeout=1.0)
        done: List[Tuple[Dict[str, Any], bool]] = []
        for key, _ in events:
            info = active[key.fd]
            while True:
                try:
                    chunk = os.read(key.fd, 1 << 16)
                except BlockingIOError:
                    break
                if not chunk:
                    done.append((info, False))
                    break
                info["buf"] += chunk
        now = time.time()
        done_fds = {info["rfd"] for info, _ in done}
        for info in list(active.values()):
            if info["rfd"] in done_fds:
                continue
            if now - info["start"] > wall_limit * 1.5 + 10:
                try:
                    os.kill(info["pid"], signal.SIGKILL)
                except ProcessLookupError:
                    pass
                done.append((info, True))
        for info, killed in done:
            job, result = finish(info, killed)
            if isinstance(result, dict):
                result.setdefault("wall_s", round(time.time() - info["start"], 3))
            if followup is not None and not (
                isinstance(result, dict) and "lost" in result
            ):
                nxt = followup(job, result)
                if nxt is not None:
                    pending_followups.append(nxt)
            if on_result is not None:
                on_result(job, result)
            yield job, result
