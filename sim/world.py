"""World: one simulated execution environment = all seams, built from a plan."""

import io
import logging
import os
import re
import sys
import traceback
from typing import Any, Dict, List, Optional, Tuple

from sim.seams import (
    ClockFacade,
    EventLog,
    SimBudgetExceeded,
    SimRandom,
    WorkCounter,
    Z3Seam,
    install_prng,
)


class World:
    def __init__(self, plan: Dict[str, Any], keep_events: int = 0):
        self.plan = plan
        faults = plan.get("faults", [])
        self.log = EventLog(keep=keep_events)
        caps = plan.get("caps", {})
        self.op_work = int(caps.get("op_work", 4_000_000))
        self.work = WorkCounter(cap=int(caps.get("total_work", 40_000_000)))
        clk = plan.get("clock", {})
        self.clock = ClockFacade(
            self.log,
            self.work,
            epoch=float(clk.get("epoch", 1_700_000_000.25)),
            c_call=float(clk.get("c_call", 1.1e-6)),
            mono_origin=float(clk.get("mono_origin", 1000.0)),
            faults=[dict(f) for f in faults if f["kind"].startswith("clk_")],
        )
        pr = plan.get("prng", {})
        self.use_prng_seam = pr.get("seam", True)
        self.rnd = SimRandom(
            int(pr.get("seed", 0)), pr.get("strategy", "uniform"), self.log
        )
        self.z3 = Z3Seam(
            self.log,
            self.clock,
            faults=[dict(f) for f in faults if f["kind"].startswith("z3_")],
        )
        self._undo = []

    def install(self):
        import isla.solver

        logging.disable(logging.CRITICAL)
        self._undo.append(lambda: logging.disable(logging.NOTSET))
        if self.plan.get("clock", {}).get("seam", True):
            old_time = isla.solver.time
            isla.solver.time = self.clock
            self._undo.append(lambda: setattr(isla.solver, "time", old_time))
        if self.use_prng_seam:
            self._undo.append(install_prng(self.rnd))
        self._undo.append(self.z3.install())
        self.work.install()
        self._undo.append(self.work.uninstall)

    def uninstall(self):
        while self._undo:
            self._undo.pop()()

    def heal(self):
        """All fault rates -> 0 from here."""
        self.z3.heal()
        self.clock.faults = []
        self.log.add("heal")

    def fired(self) -> Dict[str, int]:
        out = dict(self.clock.fired)
        for k, v in self.z3.fired.items():
            out[k] = out.get(k, 0) + v
        return out

    def seam_counts(self) -> Dict[str, int]:
        return {
            "clock_reads": self.clock.reads,
            "z3_calls": self.z3.calls,
            "prng_draws": self.rnd.draws,
            "work": self.work.count,
        }


_NUM = re.compile(r"\d+")
_QUOTED = re.compile(r"'[^']{12,}'|\"[^\"]{12,}\"")


def exception_signature(exc: BaseException) -> Dict[str, str]:
    """Call-site signature of an exception: type, innermost isla function, normalised
    message.  Used to match known findings by *where and how* it fails."""
    tb = traceback.extract_tb(exc.__traceback__)
    site = "?"
    site_file = "?"
    for fr in reversed(tb):
        if "/isla/" in fr.filename or "/isla_formalizations/" in fr.filename:
            site = fr.name
            site_file = os.path.basename(fr.filename)
            break
    msg = str(exc)
    first = msg.strip().split("\n")[0][:160]
    norm = _QUOTED.sub("'..'", first)
    norm = _NUM.sub("N", norm)
    return {
        "type": type(exc).__name__,
        "site": f"{site_file}:{site}",
        "message": norm[:120],
        "raw": first,
    }


class Quiet:
    """Silences stdout/stderr of the system under test inside a child."""

    def __enter__(self):
        self._o, self._e = sys.stdout, sys.stderr
        sys.stdout = io.StringIO()
        sys.stderr = io.StringIO()
        return self

    def __exit__(self, *a):
        sys.stdout, sys.stderr = self._o, self._e
        return False
