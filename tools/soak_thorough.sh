#!/bin/bash
# usage: soak_thorough.sh <outdir> [props...]   -- runs the registered thorough commands one after the other,
# with evidence / replays redirected to <outdir>/<prop> (development aid; the registered commands write to /verif)
OUT="$1"; shift
PROPS="${*:-C01 C02 C18 C12 C14 C16 C17 C19 C21 C22}"
mkdir -p "$OUT"
cd "$(dirname "$0")/.."
for p in $PROPS; do
  mkdir -p "$OUT/$p"
  VERIF_OUT_DIR="$OUT/$p" timeout 3000 ./check $p --tier thorough > "$OUT/$p.log" 2>&1
  echo "$p exit=$? $(tail -n 1 "$OUT/$p.log")"
done
