#!/bin/bash
# usage: verify_seed.sh <dir with patch.diff + demo.py|demo.sh> [--tests]
# Confirms in a scratch worktree: patch applies; demo FAILs with it, PASSes without; (optionally) the test suite.
set -u
D="$1"; WT=$(mktemp -d /tmp/vseed.XXXXXX); rmdir "$WT"
git -C /repo worktree add -q --detach "$WT" HEAD || exit 3
cleanup() { git -C /repo worktree remove --force "$WT" >/dev/null 2>&1; }
trap cleanup EXIT
run_demo() {
  if [ -f "$D/demo.py" ]; then (cd "$WT" && PYTHONPATH="$WT/src" timeout 600 /venv/bin/python -W ignore "$D/demo.py" > "$WT/.demo.out" 2>&1); rc=$?
  else (cd "$WT" && PYTHONPATH="$WT/src" timeout 600 bash "$D/demo.sh" > "$WT/.demo.out" 2>&1); rc=$?; fi
  tail -n 3 "$WT/.demo.out" | cut -c1-300; return $rc
}
echo "== unpatched"; run_demo; rc0=$?
git -C "$WT" apply "$D/patch.diff" || { echo "PATCH DOES NOT APPLY"; exit 4; }
echo "== patched"; run_demo; rc1=$?
echo "demo unpatched rc=$rc0 patched rc=$rc1"
if [ "${2:-}" = "--tests" ]; then
  (cd "$WT" && PYTHONPATH="$WT/src" timeout 3000 /venv/bin/python -m pytest -q -p no:cacheprovider --timeout=900 --junitxml="$D/suite_with_patch.xml" > "$D/suite_with_patch.log" 2>&1)
  /venv/bin/python - "$D/suite_with_patch.xml" <<'PY'
import json, sys, xml.etree.ElementTree as ET
sp=set(json.load(open('/root/.vp/BASELINE.json'))['stable_pass'])
res={}
for tc in ET.parse(sys.argv[1]).iter('testcase'):
    res[tc.get('classname')+'::'+tc.get('name')]=not any(c.tag in ('failure','error','skipped') for c in tc)
bad=[n for n in sp if not res.get(n)]
print('SUITE stable_pass failing with patch:', bad)
PY
fi
[ $rc0 -eq 0 ] && [ $rc1 -ne 0 ] && echo "CONFIRMED" || echo "NOT CONFIRMED"
