#!/usr/bin/env python3
"""Writes seeded/<id>/meta.json and the table in DESIGN.md from one place."""
import json, os, re
V = os.path.dirname(os.path.dirname(os.path.abspath(__file__)))
S = {
 "C01-a": ("C01", "z3_helpers.is_valid: Z3 'unknown' is read as 'valid' (from_bool(counterexample is None))", "a Z3 unknown/timeout on a validity query that persists across z3_solve's 20 retries (fault-free behaviour is identical)"),
 "C01-b": ("C01", "evaluator.evaluate: self-implication guard compares against qfr_free instead of formula, so an `exists int` conjunct is 'already implied' spuriously", "forall <row> r: exists int n: (... count(r, <field>, n)) over a repeatable nonterminal, states with >= 3 matched rows (from the 13th solve() on in the demo)"),
 "C02-a": ("C02", "solver.process_new_state: restore of start_time/timeout_seconds moved out of `finally`, skipped by the `break` of the StopIteration handler: the nested check's private 2 s timeout leaks", "activate_unsat_support=True, an intermediate state dropped by the nested unsat check, then > 2 s on the clock: TimeoutError(2) without / long before the configured timeout"),
 "C02-b": ("C02", "solver.solve_quantifier_free_formula: `!= z3.sat` collapsed to `== z3.unsat`: a Z3 'unknown' falls through and a KeyError escapes solve()", "a Z3 query during SMT elimination answers unknown (timeout / incomplete theory)"),
 "C12-a": ("C12", "mutator.replace_subtree_randomly: 'fast path' for the root returns fuzzer.fuzz_tree() (rooted in <start>)", "mutating a closed tree rooted in a nonterminal other than <start> when the root is the randomly chosen path"),
 "C12-b": ("C12", "mutator: class-level cache of self-embedding trees keyed by nonterminal-name path, shared by all Mutator objects (rebased onto the tree after the Maybe.nothing fix)", "two Mutators for different grammars that share nonterminal names, in one process, in that history"),
 "C14-a": ("C14", "solver.create_fixed_length_tree: every terminal child counted as length 1", "a grammar whose length-constrained nonterminal reaches a terminal longer than one character"),
 "C14-b": ("C14", "isla_predicates.count: needle-free expansion applied to `candidate` instead of the accumulated `expanded_node`", "count completion where the completed candidate has >= 2 open leaves that can still reach the needle"),
 "C16-a": ("C16", "derivation_tree.substitute: paths of all keys computed once from self.paths() and applied one after another", "a substitution map with a key that is a proper descendant of another key"),
 "C16-b": ("C16", "trie.path_elem_to_trie_key: escaped digits emitted least-significant first", "a node with >= 29 children (child index >= 28)"),
 "C17-a": ("C17", "derivation_tree.from_json: decoded nodes share one dict between the potential and the concrete k-path cache", "a decoded tree with an open leaf queried for concrete and potential k-paths with the same k"),
 "C17-b": ("C17", "language.SMTFormula.__getstate__: whitespace of the s-expression normalised, also inside string literals", "pickling a formula with a literal containing runs of blanks"),
 "C18-a": ("C18", "solver.check: verdict cached under str(tree)", "ambiguous grammar: two trees with the same string and different verdicts checked by the same solver object, in that order"),
 "C18-b": ("C18", "evaluator.evaluate_quantified_formula: nodes with children == () skipped as 'terminals'", "a nullable nonterminal expanded to the empty string in a *parsed* tree (the parser represents it with no child), constraint quantifying over that nonterminal"),
 "C19-a": ("C19", "cli.parse_constraint: several *.isla files combined by disjunction", ">= 2 constraint files on one command line and an input satisfying some but not all"),
 "C19-b": ("C19", "cli.get_input_string: all trailing newlines stripped in the fallback (rebased onto the tree after the trailing-newline fix; own demo)", "an input file whose content ends in >= 2 newlines where the first belongs to the input"),
 "C21-a": ("C21", "isla_predicates.just: padding unit for extend_crop is the whole string with floor division", "reST underline that must be extended by a non-multiple of its length; needs max_number_smt_instantiations > 1 and no unique-trees pruning"),
 "C21-b": ("C21", "solver.process_new_state: save/reset/restore of self.solutions around the nested unsat check removed", "activate_unsat_support=True, satisfiable existential quantifiers, more than one instantiation per step: trees satisfying only the existential under test leak into the solutions"),
 "C22-a": ("C22", "z3_helpers.z3_solve: retry shuffling and smt.random_seed drawn from an unseeded private random.Random()", "at least one Z3 unknown inside z3_solve and an SMT part with several models"),
 "C22-b": ("C22", "language.StructuralPredicate: hand-written __hash__ removed, dataclass hash includes the function object (address)", "constraint with a structural predicate, a cost tie in the queue, two separate processes with different heap layout"),
 "C01-c": ("C01", "isla_predicates.count: per-leaf reachability query replaced by a precomputed set whose worklist starts with seen={needle}, so a recursive needle never 'reaches itself'", "count(tree, <N>, n) with a *recursive* needle nonterminal on a tree that is still open; the free completion must pick a recursive alternative (only some solve() calls of a sequence are wrong)"),
 "C02-c": ("C02", "solver.solve_quantifier_free_formula: extracted check_timeout() also called inside the SMT instantiation loop, i.e. after the state was popped from the queue", "timeout configured; the budget runs out between two Z3 queries of one SMT enumeration (slow query / clock step) while the popped state was the only queue element; then another solve(): TimeoutError once, StopIteration afterwards"),
 "C12-c": ("C12", "mutator.generalize_subtree: class-level cache of path_to_tree results keyed by the nonterminal path only", "two Mutators (or two solvers' mutate()) for different grammars sharing a recursive nonterminal cycle, used one after the other in one process"),
 "C14-c": ("C14", "isla_predicates.count: leaf-closing loop moved into a helper that restarts from the original tree in every iteration (only the last open leaf is closed)", "count completion of a candidate with >= 2 open leaves from which the needle is reachable (two optional lists)"),
 "C16-c": ("C16", "trie.path_elem_to_trie_key: variable-length escape with an off-by-one in the digit count: child index 54 (756, 19710) gets the key of index 27", "a node with >= 55 children"),
 "C17-c": ("C17", "derivation_tree.__getstate__: pickled bytes cached on the node in `_state`; to_json's exclusion entry is name-mangled and never matches", "a node is pickled / deep-copied, and later to_json (or pickling of an ancestor) runs over that very object"),
 "C18-c": ("C18", "solver.parse: cache of accepted inputs keyed by the string only, shared with copies made by copy_without_queue", "two solvers related by copy_without_queue(formula=...) and a string first accepted by one member, then checked / parsed by the other"),
 "C19-c": ("C19", "cli.get_input_string: content without its final newline is tried first, the verbatim content only as fallback", "input passed as a file ending in a newline, a grammar that accepts the content with and without it, and a constraint that tells the two readings apart"),
 "C21-c": ("C21", "solver.process_new_state: nested unsat check swaps the queue but no longer isolates self.solutions (independently written twin of C21-b)", "activate_unsat_support=True, existential tree quantifier, >= 2 complete trees produced by the nested check's last step (max_number_free_instantiations >= 2)"),
 "C22-c": ("C22", "z3_helpers.z3_solve: retry shuffle and smt.random_seed drawn from a module-level random.Random() (OS entropy)", "at least one Z3 unknown inside z3_solve and an SMT part with several models"),
 "C01-d": ("C01", "solver.eliminate_existential_formula: after a tree insertion the original formula is re-added only if a universally quantified nonterminal is (reachable from) the inserted one", "`(forall <U> ...) and (exists <W> ...)` with <U> not reachable from <W>, where inserting a <W> brings a sibling that derives <U>; only solutions from the tree-insertion branch (later solve() calls) are wrong"),
 "C02-d": ("C02", "solver.solve: `if self.timeout_seconds and not self.start_time` instead of the `is None` tests", "timeout_seconds=0 (TypeError on every call), or a monotonic clock reading < 1 s at the first solve() with a positive timeout (TimeoutError, then trees again)"),
 "C12-d": ("C12", "fuzzer.GrammarFuzzer.expand_tree: nonterminal leaves with an empty children list are re-opened before expansion", "an input tree with a parser-style epsilon node (nonterminal with () children) in its already expanded part"),
 "C14-d": ("C14", "solver.parse: one EarleyParser per nonterminal cached on the solver and shared with copies made by copy_without_queue (rebased after fix e647ac1)", "copy_without_queue(grammar=Some(G2)) where G2 defines a numeric nonterminal differently; one solver parses for it first, the other then builds a numeric value tree for it"),
 "C16-d": ("C16", "derivation_tree.from_json: next_id is bumped past the root's id only, not past every loaded node's (rebased after fix da4bbe0)", "a tree grown top-down (descendants have higher ids than the root) is saved, loaded in a fresh interpreter, and new nodes are created there"),
 "C17-d": ("C17", "language.SMTFormula.__getstate__ via z3_helpers.z3_sexpr: s-expression memoised by Z3 AST id, which Z3 recycles after garbage collection", "pickle formula A, let it become garbage, create formula B that inherits A's AST id, pickle B"),
 "C18-d": ("C18", "parser.fixpoint: convergence test compares the in-place updated set with itself, so `nullable` stops after one pass", "a nonterminal that is nullable only through a nonterminal defined later in the grammar, predicted twice in one Earley column, and an input where those parts are empty"),
 "C19-d": ("C19", "cli.parse_constraint: process-wide cache of parsed constraints keyed by the text and the *set of nonterminal names* of the grammar", "two commands in one Python process with the same constraint text and two grammars with equal nonterminal names but different rules; never visible to separate `python -m isla` processes"),
 "C21-d": ("C21", "solver.eliminate_existential_integer_quantifiers: `if not evaluate(...).is_false()` instead of `.is_true()`: an inconclusive implication check drops the `exists int` conjunct", "Z3 answers unknown for the validity query of that implication check (is_valid), CSV / reST formalizations"),
 "C22-d": ("C22", "solver.recompute_costs: additionally triggered when 20 s of time.monotonic() have passed", "more than 20 s pass between construction / the last recomputation and a later step, at different steps in the runs compared (slow machine, pause between solve() calls); no timeout configured"),
}
def main():
    det_path = os.path.join(V, "seeded", "detection.json")
    det = json.load(open(det_path)) if os.path.exists(det_path) else {}
    rows = []
    for sid, (prop, change, needs) in S.items():
        d = os.path.join(V, "seeded", sid)
        if not os.path.isdir(d):
            continue
        demo = "demo.py" if os.path.exists(os.path.join(d, "demo.py")) else "demo.sh"
        caught = det.get(sid, {})
        meta = {
            "id": sid, "breaks_property": prop, "change": change, "needs_to_manifest": needs,
            "files": ["patch.diff", demo, "notes.md"],
            "written_by": "independent sub-agent given only the property text and a scratch worktree of /repo",
            "confirmed": {
                "how": "tools/verify_seed.sh <dir> --tests in a fresh scratch worktree of /repo HEAD (removed afterwards): patch applies; demo exits 0 unpatched and 1 patched; full pytest suite with the patch: no test of the pinned stable-pass list fails",
                "log": f"/tmp/vseed_{sid}.log (not kept)",
            },
            "detection": caught,
        }
        with open(os.path.join(d, "meta.json"), "w") as f:
            json.dump(meta, f, indent=1)
        rows.append((sid, prop, change.split(":")[0], caught.get("check", "-"), caught.get("clause", "-"), caught.get("tier", "-"), caught.get("final", "tried against the checks of session 3 (see tier / runs)")))
    table = "| seeded change | property | site | caught by | oracle clause | tier / runs | re-run against the final checks |\n|---|---|---|---|---|---|---|\n" + "\n".join(f"| {a} | {b} | `{c}` | {d} | {e} | {f} | {g} |" for a, b, c, d, e, f, g in rows)
    with open(os.path.join(V, "seeded", "README.md"), "w") as f:
        f.write("# Seeded breaking changes and which check catches which\n\n"
                "Each directory holds patch.diff (applies to /repo HEAD), a demonstration that fails with the patch and passes without,\n"
                "notes.md from the author of the change, and meta.json (what it breaks, what it needs to manifest, how it was confirmed, which check catches it).\n"
                "None of these changes is ever committed to /repo.\n\n" + table + "\n")
main()
