#!/bin/bash
# usage: retest_seed.sh <seed> <pytest node ids...>  -- reruns single tests with the seeded patch applied (load-sensitive tests)
S="$1"; shift
WT=$(mktemp -d /tmp/rseed.XXXXXX); rmdir "$WT"
git -C /repo worktree add -q --detach "$WT" HEAD || exit 3
trap 'git -C /repo worktree remove --force "$WT" >/dev/null 2>&1' EXIT
git -C "$WT" apply "/verif/seeded/$S/patch.diff" || { echo "PATCH DOES NOT APPLY"; exit 4; }
cd "$WT" && PYTHONPATH="$WT/src" timeout 1800 /venv/bin/python -m pytest -q -p no:cacheprovider --timeout=900 "$@" 2>&1 | tail -n 3
