#!/bin/bash
# usage: try_seed.sh <seeded dir name> <check args...>   e.g. try_seed.sh C16-a C16 --runs 16 --budget 120
# Runs a check against a scratch worktree of /repo with the seeded patch applied (development aid).
set -u
S="$1"; shift
WT=$(mktemp -d /tmp/tseed.XXXXXX); rmdir "$WT"
git -C /repo worktree add -q --detach "$WT" HEAD || exit 3
trap 'git -C /repo worktree remove --force "$WT" >/dev/null 2>&1' EXIT
git -C "$WT" apply "/verif/seeded/$S/patch.diff" || { echo "PATCH DOES NOT APPLY"; exit 4; }
mkdir -p /tmp/tryout/$S; cd /verif && VERIF_OUT_DIR=/tmp/tryout/$S VERIF_REPO_SRC="$WT/src" ./check "$@"
echo "exit=$?"
