#!/venv/bin/python
"""Development tool: list violations in survey output files that no open known finding matches.
usage: unknowns.py <survey.jsonl>..."""
import collections, json, os, sys
VERIF = os.path.dirname(os.path.dirname(os.path.abspath(__file__)))
sys.path.insert(0, VERIF)
from sim import driver

known = driver.load_known_findings()
for path in sys.argv[1:]:
    keys = collections.Counter(); ex = {}; n = 0; lost = 0
    for line in open(path):
        d = json.loads(line); r = d["record"]; n += 1
        if "lost" in r:
            lost += 1
            continue
        for v in r.get("violations") or []:
            if driver.match_known(v, known):
                continue
            k = driver.violation_key(v)
            keys[k] += 1
            if k not in ex:
                p = d.get("plan") or {}
                sc = None
                if "scenarios" in p and v.get("solver") is not None:
                    sc = p["scenarios"][v["solver"]]
                ex[k] = (d["run_seed"], d["phase"], d["hashseed"], str(v.get("detail"))[:500], v.get("features"),
                         (sc or {}).get("formula_text"), json.dumps((sc or {}).get("grammar"))[:500], (sc or {}).get("settings"))
    print(f"== {path}: records {n} lost {lost} unknown kinds {len(keys)}")
    for k, c in keys.most_common():
        print(f"  {c:3d} {k}")
        for x in ex[k]:
            print("        ", x)
