#!/venv/bin/python
"""Development tool: for each VERIF_SEED given, execute the *full* quick batch of every
registered check (no wall budget, so every run seed the quick tier could ever reach is
executed) and list the violations no open known finding matches.

usage: wide_survey.py <outdir> <seed>[,<seed>...] [<prop>,<prop>...] [--size quick|N]
The stage table mirrors checks/registry.py (quick tier)."""
import json, os, subprocess, sys
VERIF = os.path.dirname(os.path.dirname(os.path.abspath(__file__)))
STAGES = {
    "C01": [("solversim", {"derive_prob": 0.12, "derive_grammar_prob": 0.4, "focus": "C01"}, 240)],
    "C02": [("solversim", {"unsat_prob": 0.45, "clock_op_prob": 0.22, "fault_bias": {"fault_free_prob": 0.2, "z3_slow": 5, "clk_jump_fwd": 3}, "derive_prob": 0.12, "derive_grammar_prob": 0.4, "focus": "C02"}, 240)],
    "C18": [("solversim", {"api_ops": True, "families": ["ambig", "ambig", "signed", "csv", "config", "nullable", "nullable", "nullable"], "families_prob": 0.55, "focus": "C18"}, 200)],
    "C12": [("choicesim", {"focus": "C12", "cases": 24}, 160), ("solversim", {"focus": "C12", "derive_prob": 0.3, "derive_grammar_prob": 0.6}, 120)],
    "C14": [("choicesim", {"focus": "C14", "cases": 24}, 160), ("solversim", {"focus": "C14", "derive_prob": 0.3, "derive_grammar_prob": 0.6, "families": ["signed", "signed", "config", "lenprefix", "expr", "csv"], "families_prob": 0.6}, 120)],
    "C16": [("treesim", {"focus": "C16", "examples": 40, "steps": 30}, 96)],
    "C17": [("treesim", {"focus": "C17", "examples": 40, "steps": 30}, 96)],
    "C19": [("clisim", {}, 220)],
    "C21": [("formsim", {}, 64)],
    "C22": [("reprosim", {}, 72)],
}


def main():
    outdir = sys.argv[1]
    seeds = [int(x) for x in sys.argv[2].split(",")]
    props = sys.argv[3].split(",") if len(sys.argv) > 3 and not sys.argv[3].startswith("--") else list(STAGES)
    mult = 1
    if "--mult" in sys.argv:
        mult = int(sys.argv[sys.argv.index("--mult") + 1])
    first = 0
    if "--first" in sys.argv:
        first = int(sys.argv[sys.argv.index("--first") + 1])
    os.makedirs(outdir, exist_ok=True)
    for seed in seeds:
        for prop in props:
            for si, (engine, profile, n) in enumerate(STAGES[prop]):
                out = os.path.join(outdir, f"s{seed}_{prop}_{si}_{engine}.jsonl")
                if os.path.exists(out) and os.path.getsize(out) > 0:
                    continue
                env = dict(os.environ, VERIF_SEED=str(seed), PYTHONWARNINGS="ignore")
                log = out.replace(".jsonl", ".log")
                with open(log, "w") as lf:
                    subprocess.run(["/venv/bin/python", os.path.join(VERIF, "tools", "survey.py"), engine, str(first), str(n * mult - first if first else n * mult), "16",
                                    json.dumps(profile), out], env=env, stdout=lf, stderr=subprocess.STDOUT, cwd=VERIF)
                r = subprocess.run(["/venv/bin/python", os.path.join(VERIF, "tools", "unknowns.py"), out], capture_output=True, text=True, cwd=VERIF)
                print(r.stdout, flush=True)


main()
