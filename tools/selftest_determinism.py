#!/venv/bin/python
"""Determinism self-test: every run seed executed twice, with different worker counts and
batch sizes, in fresh part processes; the per-run digests (SHA-256 over the complete seam
event log and outcomes) must be identical.  usage: selftest_determinism.py <engine> <runs> [profile-json]
Writes /verif/selftest/determinism_<engine>.json and exits 1 on any divergence."""
import json, os, sys, time
VERIF = os.path.dirname(os.path.dirname(os.path.abspath(__file__)))
sys.path.insert(0, VERIF)
from sim import driver

def main():
    engine = sys.argv[1]; runs = int(sys.argv[2])
    profile = json.loads(sys.argv[3]) if len(sys.argv) > 3 else {}
    t0 = time.time()
    a, ea = driver.run_batch(engine, profile, runs, 3600, 600.0, 16)
    b, eb = driver.run_batch(engine, profile, runs, 3600, 600.0, 4)
    def index(lines):
        d = {}
        for l in lines:
            r = l["record"]
            d[(l["run_seed"], l.get("phase"))] = None if "lost" in r else r.get("digest")
        return d
    da, db = index(a), index(b)
    keys = sorted(set(da) | set(db))
    diverged = [k for k in keys if da.get(k) is not None and db.get(k) is not None and da[k] != db[k]]
    missing = [k for k in keys if (k in da) != (k in db)]
    lost = [k for k in keys if (k in da and da[k] is None) or (k in db and db[k] is None)]
    out = {"engine": engine, "runs_requested": runs, "executions_compared": len(keys) - len(missing) - len(lost),
           "diverged": [list(k) for k in diverged], "only_in_one_batch": [list(k) for k in missing], "lost_runs_excluded": [list(k) for k in lost],
           "worker_counts": [16, 4], "hash_seeds": driver.HASHSEEDS, "wall_s": round(time.time() - t0, 1), "part_errors": (ea + eb)[:4]}
    os.makedirs(os.path.join(VERIF, "selftest"), exist_ok=True)
    with open(os.path.join(VERIF, "selftest", f"determinism_{engine}.json"), "w") as f:
        json.dump(out, f, indent=1)
    print(json.dumps({k: v for k, v in out.items() if k not in ("lost_runs_excluded",)}, indent=1)[:1500])
    return 1 if diverged or missing else 0
sys.exit(main())
