#!/bin/bash
# Re-verifies every seeded change on the current /repo HEAD: demo PASS/FAIL and the full test suite with the patch.
cd /verif/seeded
ls -d */ | sed 's#/##' | xargs -P ${1:-4} -I{} bash -c '/verif/tools/verify_seed.sh /verif/seeded/{} --tests > /tmp/vseed_{}.log 2>&1; echo "{}: $(tail -n 1 /tmp/vseed_{}.log) $(grep "^SUITE" /tmp/vseed_{}.log)"'
