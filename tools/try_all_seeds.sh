#!/bin/bash
# usage: try_all_seeds.sh "<seed dirs>" <parallel> [extra check args]
# For each seeded change runs the check of its property (quick tier) against a patched scratch worktree.
SEEDS="$1"; PAR="${2:-3}"; shift; shift
for s in $SEEDS; do echo $s; done | xargs -P $PAR -I{} bash -c 'p=$(echo {} | cut -d- -f1); /verif/tools/try_seed.sh {} $p --tier quick --nproc 5 '"$*"' > /tmp/try_{}.log 2>&1; echo "{}: $(grep -c "^VIOLATION" /tmp/try_{}.log) violations; $(tail -n 2 /tmp/try_{}.log | head -1 | cut -c1-150)"'
