#!/usr/bin/env python3
"""Writes /verif/MANIFEST.json from the tables below (kept in one place so that it stays valid)."""
import json, os
V = os.path.dirname(os.path.dirname(os.path.abspath(__file__)))

NA = {
 "C03": "evaluate()/check() on a closed tree is a pure function of (grammar, tree, constraint): no schedule, clock, fault, PRNG draw or history in statement or mechanism; its only environment dependence (Z3 deciding an atom) is excluded by the statement itself ('when Z3 can decide'). Driving it with random inputs would be input generation in simulator vocabulary.",
 "C04": "structural predicates are pure functions of a tree and two paths; nothing to schedule or fault.",
 "C05": "ground-atom evaluation is a pure function of the instantiated expression; the Z3 fallback's timeout is excluded by 'Z3's truth value'.",
 "C06": "the three-valued verdict on an open tree and the verdicts on its completions are pure functions of (tree, constraint); nothing is scheduled or faulted.",
 "C07": "unparse/parse is a pure function of the constraint text.",
 "C08": "desugaring is a pure function of constraint text and grammar.",
 "C09": "negation / NNF / DNF / renaming are pure formula rewrites.",
 "C10": "Earley parsing is a pure function of (grammar, string); the random use in parser.py is in a tree-sampling helper the property does not cover.",
 "C11": "BNF print/parse is a pure function of the grammar (the printer's random 30-letter placeholder for '<' can only matter if a terminal contains that exact string).",
 "C13": "insert_tree is deterministic and draws nothing from clock, PRNG or Z3; it is exercised as a side effect of the solver runs (a defect can surface as a C01/C02 violation) but its own input quantifier is not covered, so no claim.",
 "C15": "interval inference and regex compression are pure functions of a Z3 regex term.",
 "C20": "the predicates' verdicts and proposals are pure functions of their arguments (the single random draw, the number a negated count proposes, does not enter the stated relation).",
}
PENDING = {
}

def chk(pid, engine, text, note, technique, design_ref):
    return {
        "property_id": pid,
        "quick_cmd": f"./check {pid} --tier quick",
        "thorough_cmd": f"./check {pid} --tier thorough",
        "evidence_file": f"evidence/{pid}.json",
        "replay_cmd_template": f"./check {pid} --replay {{path}}",
        "engine": engine,
        "level_claimed": {"category": "exploration", "text": text, "design_ref": design_ref},
        "level_note": note,
        "technique": technique,
    }

TB = "Trusted base: the simulator's seams (virtual clock, seeded PRNG, Z3 rlimit budget/unknown injection, cost-order strategies), the independent oracles under /verif/oracles, CPython, real Z3 for ground atoms. Sampling, not enumeration: a clean batch is evidence, not proof."
CHECKS = [
 chk("C01", "solversim", "Seeded search over simulated solver runs: 1-3 ISLaSolver objects interleaved (plus solver copies made by copy_without_queue with another constraint / another grammar, and solvers with a requested start symbol), every solve() result judged by an independent grammar model + independent ISLa-semantics evaluator, under adversarial PRNG strategies, arbitrary processing orders of queued states (cost-computer seam), virtual-clock faults and Z3 unknown / starvation / stalled-query faults placed at seam indices inside operations. Soundness of a returned solution is never relaxed under faults.", TB, "deterministic simulation with fault injection (seeded schedules + clock/Z3/PRNG faults), reference-model oracle per returned solution", "DESIGN.md 5 C01"),
 chk("C02", "solversim", "Same executions; history oracle over each solver's recorded solve() call sequence: outcome in {tree, StopIteration, TimeoutError}, TimeoutError only with a configured timeout, sticky after the first terminal exception (re-probed after clock steps forward/backward, heals and calls on other solvers; timeouts 0..60 s, arbitrary origin of the monotonic clock, time passing inside single Z3 queries). Escaping exceptions are identified by call-site signature so that known findings do not mask new ones.", TB, "deterministic simulation with fault injection; history oracle over recorded call sequences", "DESIGN.md 5 C02"),
 chk("C12", "choicesim+solversim", "The PRNG is the nondeterminism the property quantifies over ('for every random choice'): fuzzer expand_tree on pruned open trees and Mutator.mutate on closed trees are driven under uniform and adversarial choice strategies (always first/last, alternate, biased) with an independent grammar model as oracle; plus a monitor on every fuzzer.expand_tree call the solver makes in simulated runs.", TB, "deterministic simulation: seeded adversarial random-choice strategies behind the PRNG seam + seam monitors in simulated solver runs", "DESIGN.md 5 C12"),
 chk("C14", "choicesim+solversim", "create_fixed_length_tree, numeric model-value extraction and count completion are judged (valid tree for the nonterminal, exact length / value / count, no open leaf that can still produce the needle) both when driven directly under PRNG strategies and at the three seams inside simulated solver steps (where their inputs come from Z3 models and partial solver states).", TB, "deterministic simulation: PRNG-strategy driven helpers + seam monitors inside simulated solver runs", "DESIGN.md 5 C14"),
 chk("C16", "treesim", "Hypothesis stateful histories of public tree operations interleaved with cache-touching observers on a pool of trees that share process-global lru_caches, checked after every step against an immutable reference model (string, openness, paths, node search, trie view incl. sub-tries and fan-out 27-120 and 728-758, structural hash / equality, operand immutability); at the end of every run seed the pool is made durable and judged in a fresh interpreter with another hash seed (process restart).", TB, "deterministic simulation of operation histories (seeded stateful machine, shrinking, scripted replay) against a reference model", "DESIGN.md 5 C16"),
 chk("C17", "treesim", "Same machine with serialisations (pickle, to_json/from_json, deepcopy, CLI JSON) injected at arbitrary points of the history: decoded tree equals the model and behaves like the original under every observer; every observer of the original returns what it returned before; SMTFormula pickling with adversarial string literals; process restart: pickled / JSON-encoded pool decoded and judged in a fresh interpreter with another PYTHONHASHSEED (equality, hashes, id allocation, further operations).", TB, "deterministic simulation of operation histories with serialisation events, reference model + before/after observer snapshots", "DESIGN.md 5 C17"),
 chk("C18", "solversim", "check / parse / repair / mutate operations interleaved with solve() on valid (oracle-verified solver outputs), syntactically invalid (character edits, decided by an own Earley recogniser) and semantically invalid inputs (incl. words derived by the harness itself), on single solvers and on solver families made by copy_without_queue that share accepted inputs, under the same clock / Z3 / PRNG / order faults (repair and mutate run nested solvers with 0.5-3 s timeouts on the virtual clock). UnknownResultError is accepted only when a Z3 query inside that call was not decided.", TB, "deterministic simulation with fault injection; reference-model oracle per API call", "DESIGN.md 5 C18"),
]
ENGINES = [
 {"name": "solversim", "path": "engines/solversim.py", "serves_properties": ["C01", "C02", "C18", "C12", "C14"], "kind_free_text": "fork-per-run simulation of ISLaSolver objects under virtual clock, seeded PRNG, Z3 seam and cost-order seam; two-phase fault placement"},
 {"name": "choicesim", "path": "engines/choicesim.py", "serves_properties": ["C12", "C14"], "kind_free_text": "PRNG-strategy driven fuzzer / mutator / build-to-target helpers"},
 {"name": "treesim", "path": "engines/treesim.py", "serves_properties": ["C16", "C17"], "kind_free_text": "Hypothesis stateful operation histories on DerivationTree/SMTFormula against a reference model; process-restart stage in a fresh interpreter (engines/treechild.py)"},
]

CHECKS += [
 chk("C19", "clisim", "The isla command line in-process inside a per-run sandbox directory under the clock / PRNG / Z3 seams and a storage-fault layer that damages files between the write and the command that reads them (empty, torn, lost, directory, garbage bytes, NUL, BOM, CRLF, extra newlines, duplicate input). Oracle over the recorded command history on the bytes actually on disk: check/parse/find exit codes against Oracle-G/S, every solve output is in the language, satisfies the conjunction of all constraints and is accepted by a following check, parse output accepted by check, malformed-by-construction specs -> 65 + message, usage errors -> 2, any exception escaping main other than SystemExit is a traceback (also for isla fuzz with tiny real test targets).", TB + " The process boundary is stubbed (in-process main).", "deterministic simulation with fault injection (storage, Z3, clock faults between/inside CLI commands), history oracle over recorded command sessions", "DESIGN.md 5 C19"),
 chk("C22", "reprosim", "For a scenario, hash seed and random seed, 2-3 fresh interpreters run the user's program (random.seed; ISLaSolver; solve() k times), each under a different perturbation schedule of what must not matter (heap ballast shifting every address/id, GC mode, import order, epoch, clock speed and stalls between solve() calls with no timeout configured, cwd/HOME/COLUMNS/argv) with ASLR off so that a mismatch is itself reproducible; the same deterministic Z3 budget and optional Z3-unknown schedule apply to all children. Verdict: identical sequences of (string, tree shape).", TB + " Z3 wall-clock timeouts are replaced by the rlimit budget in every child.", "deterministic simulation: seeded perturbation schedules over fresh interpreters, sequence-equality oracle", "DESIGN.md 5 C22"),
]
CHECKS += [
 chk("C21", "formsim", "Simulated solver runs on the shipped formalizations (CSV, XML, reST, simple TAR: shipped grammar + shipped constraint set or a sub-conjunction) with three settings strata (the repository's own test settings, the library defaults, per-run variation) and PRNG seed/strategy, cost weights and k, cost-order strategy, fuzzer kind and instantiation limits; more than half of the run seeds are re-executed with Z3 (global or call-site specific outages, starvation, stalled queries) / clock faults placed inside the run. Every returned solution is judged by the independent grammar model and an independent domain validator (own CSV field splitting, expat + own namespace/attribute rules, docutils system messages + own underline/link/numbering rules, own TAR checksum/field layout).", TB + " The domain validators demand exactly what the shipped constraints formalize; solver exceptions in these runs are C02's business and counted as inconclusive.", "deterministic simulation: seeded schedules and fault sequences over solver runs on the bundled formalizations, independent domain oracles", "DESIGN.md 5 C21"),
]
ENGINES += [
 {"name": "formsim", "path": "engines/formsim.py", "serves_properties": ["C21"], "kind_free_text": "simulated solver runs on the bundled formalizations judged by independent domain validators (oracles/domains.py)"},
 {"name": "clisim", "path": "engines/clisim.py", "serves_properties": ["C19"], "kind_free_text": "in-process CLI sessions in a sandbox directory with storage / Z3 / clock faults"},
 {"name": "reprosim", "path": "engines/reprosim.py", "serves_properties": ["C22"], "kind_free_text": "fresh interpreters under perturbation schedules (engines/reprochild.py)"},
]

def main():
    m = {
        "version": 1,
        "setup_cmd": "/venv/bin/python -c 'import hypothesis, isla' || /venv/bin/pip install --no-index --find-links /opt/veriftools/wheels hypothesis",
        "hooks": {
            "guard": "ISLA_VERIF",
            "enable": "no source hooks exist: every seam is an existing constructor parameter (cost_computer=, fuzzer_factory=) or a module attribute replaced from outside by /verif/sim (isla.solver.time, <isla module>.random, z3.Solver.check/set, z3.set_param); /repo is an editable install, so checks always run its current working tree",
            "baseline_off_cmd": "cd /repo && /venv/bin/python -m pytest -ra -q -p no:cacheprovider --timeout=900 --continue-on-collection-errors",
            "source_commits": [],
            "add_only": True,
        },
        "engines": ENGINES,
        "checks": CHECKS,
        "not_applicable": [{"property_id": k, "reason": v} for k, v in sorted({**NA, **PENDING}.items())],
        "notes": "Deterministic simulation with fault injection; see DESIGN.md. Genuine defects repaired by 'fix:' commits in /repo and open findings are listed in known_findings.json. VERIF_SEED shifts every run seed; exit 0 = held, 1 = VIOLATION line + replay file, 2 = harness problem.",
    }
    with open(os.path.join(V, "MANIFEST.json"), "w") as f:
        json.dump(m, f, indent=1)
main()
