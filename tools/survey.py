#!/venv/bin/python
"""Development tool: run an engine over many seeds and aggregate violations by key.
usage: survey.py <engine> <first_index> <n> <nproc> [profile-json]"""
import json, os, sys, time, tempfile, subprocess, collections
VERIF = os.path.dirname(os.path.dirname(os.path.abspath(__file__)))
sys.path.insert(0, VERIF)
from sim import driver

def main():
    engine = sys.argv[1]; first = int(sys.argv[2]); n = int(sys.argv[3]); nproc = int(sys.argv[4])
    profile = json.loads(sys.argv[5]) if len(sys.argv) > 5 else {}
    out_path = sys.argv[6] if len(sys.argv) > 6 else "/tmp/survey.jsonl"
    tmp = tempfile.mkdtemp(prefix="survey_")
    procs = []
    K = 4
    for k in range(K):
        of = os.path.join(tmp, f"p{k}.jsonl")
        # indices first .. first+n-1, part k takes i%K==k
        procs.append((of, driver.spawn_part(engine, profile, k, of, ["--part", str(k), "--parts", str(K), "--runs", str(first + n), "--nproc", str(max(1, nproc // K)), "--wall", "240", "--first", str(first)])))
    for of, p in procs:
        _, err = p.communicate()
        if p.returncode: print("part failed", err.decode()[-2000:])
    known = driver.load_known_findings()
    keys = collections.Counter(); ex = {}; lost = collections.Counter(); inc = collections.Counter(); nrec = 0
    with open(out_path, "w") as out:
        for of, _ in procs:
            if not os.path.exists(of): continue
            for line in open(of):
                out.write(line)
                d = json.loads(line); r = d["record"]; nrec += 1
                if "lost" in r: lost[r["lost"]] += 1; continue
                for i in r.get("inconclusive") or []: inc[":".join(str(i).split(":")[:4])[:150]] += 1
                for v in r.get("violations") or []:
                    k = driver.violation_key(v)
                    kk = ("KNOWN " if driver.match_known(v, known) else "") + str(k)
                    keys[kk] += 1
                    ex.setdefault(kk, (d["run_seed"], d["phase"], d["hashseed"], str(v.get("detail"))[:400]))
    print("records", nrec, "lost", dict(lost))
    print("inconclusive:"); [print("  ", c, k) for k, c in inc.most_common(25)]
    print("violations:")
    for k, c in keys.most_common():
        print(f"  {c:4d} {k}\n        e.g. {ex[k]}")
main()
